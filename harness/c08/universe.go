package main

import (
	"sort"

	"cvh/lib"
)

// The enumerated type universe: every type of depth 0 over the declaration environment, every
// depth-1 type over a base selection, and depth-2 types over a smaller selection; sampled
// deterministically from the seed down to the tier's size (the depth-0 layer and a fixed list of
// hand-picked corner types are always kept).

func auths() []Auth {
	return []Auth{
		{K: AUnauth},
		{K: AConj, Ents: []int{0}},
		{K: AConj, Ents: []int{0, 1}},
		{K: AConj, Ents: []int{1, 2}},
		{K: ADisj, Ents: []int{0, 1}},
		{K: ADisj, Ents: []int{1, 2}},
		{K: AConj, Ents: []int{0, 1, 2}},
		{K: AMap, Map: 0},
	}
}

func idx(names []string, n string) int {
	for i, x := range names {
		if x == n {
			return i
		}
	}
	panic(n)
}

func C(n string) *Ty { return Comp(idx(compNames, n)) }
func I(n string) *Ty { return Iface(idx(ifaceNames, n)) }
func IS(l *Ty, ns ...string) *Ty {
	var is []int
	for _, n := range ns {
		is = append(is, idx(ifaceNames, n))
	}
	return Inter(l, is...)
}

// depth0 returns all primitive and nominal types and the intersection types without legacy type.
func depth0() []*Ty {
	var out []*Ty
	for _, p := range prims {
		out = append(out, P(p))
	}
	for i := range compNames {
		out = append(out, Comp(i))
	}
	for i := range ifaceNames {
		out = append(out, Iface(i))
	}
	out = append(out,
		IS(nil, "I1"), IS(nil, "I2"), IS(nil, "I3"), IS(nil, "I1", "I2"), IS(nil, "I2", "I1"), IS(nil, "I1", "I3"),
		IS(nil, "RI"), IS(nil, "RJ"), IS(nil, "RJ", "RI"), IS(nil, "StructStringer"), IS(nil, "I1", "StructStringer"),
		Cap(nil),
	)
	return out
}

// legacyIntersections: intersection types carrying a legacy restricted type (only produced by
// decoding pre-1.0 stored type values; not denotable by programs).
func legacyIntersections() []*Ty {
	return []*Ty{
		IS(C("S1"), "I1"), IS(C("S1"), "I2"), IS(C("S1"), "I3"), IS(C("S2"), "I1"), IS(C("S3"), "I1", "I2"),
		IS(C("R1"), "RI"), IS(C("R3"), "RI"), IS(C("R2"), "RJ"),
		IS(P("AnyStruct"), "I1"), IS(P("AnyStruct"), "I2"), IS(P("AnyResource"), "RI"), IS(P("AnyResource"), "RJ"),
		IS(P("Any"), "I1"), IS(P("Any"), "RI"), IS(P("AnyStruct"), "RI"), IS(P("AnyResource"), "I1"),
	}
}

func hashableKeys() []*Ty {
	return []*Ty{P("Int"), P("String"), P("Address"), P("StoragePath"), P("Bool"), P("UInt8"), P("Number"), P("HashableStruct"), C("En"), P("Never"), P("Integer"), P("Path")}
}

func funs(args []*Ty) []*Ty {
	var out []*Ty
	void := P("Void")
	out = append(out,
		Fun(FunTy{Ret: void}),
		Fun(FunTy{Ret: void, View: true}),
		Fun(FunTy{Ret: void, Ctor: true}),
		Fun(FunTy{Ret: P("Int"), Params: []*Ty{P("Int")}}),
		Fun(FunTy{Ret: P("Int"), Params: []*Ty{P("Int")}, Arity: &[2]int{1, 1}}),
		Fun(FunTy{Ret: P("Int"), Params: []*Ty{P("Int")}, Arity: &[2]int{1, 2}}),
		Fun(FunTy{Ret: P("Int"), Params: []*Ty{P("Int"), P("String")}}),
		Fun(FunTy{Ret: void, TParams: []*Ty{nil}}),
		Fun(FunTy{Ret: void, TParams: []*Ty{P("AnyStruct")}}),
		Fun(FunTy{Ret: void, TParams: []*Ty{P("Integer")}}),
		Fun(FunTy{Ret: void, TParams: []*Ty{P("Integer"), nil}}),
	)
	for _, a := range args {
		out = append(out,
			Fun(FunTy{Ret: a}),
			Fun(FunTy{Ret: void, Params: []*Ty{a}}),
			Fun(FunTy{Ret: a, Params: []*Ty{a}, View: true}),
		)
	}
	return out
}

// wrap1 returns the depth+1 types built from the given element types.
func wrap1(elems []*Ty, as []Auth) []*Ty {
	var out []*Ty
	for _, t := range elems {
		out = append(out, Opt(t), Var(t), Const(t, 2), Const(t, 3), Cap(t), Dict(P("String"), t))
		for _, a := range as {
			out = append(out, Ref(a, t))
		}
	}
	return out
}

type Universe struct {
	Types []*Ty
}

func names(ts []*Ty) map[string]bool {
	m := map[string]bool{}
	for _, t := range ts {
		m[t.String()] = true
	}
	return m
}

func dedup(ts []*Ty) []*Ty {
	seen := map[string]bool{}
	var out []*Ty
	for _, t := range ts {
		s := t.String()
		if !seen[s] {
			seen[s] = true
			out = append(out, t)
		}
	}
	return out
}

func BuildUniverse(rng *lib.Rng, tier string) *Universe {
	d0 := depth0()
	legacy := legacyIntersections()

	// element selection for depth 1
	sel1names := []string{"Never", "Any", "AnyStruct", "AnyResource", "HashableStruct", "AnyResourceAttachment", "AnyStructAttachment",
		"Int", "Int8", "UInt8", "Word8", "Fix64", "UFix64", "Integer", "SignedInteger", "Number", "SignedNumber", "FixedPoint",
		"String", "Bool", "Address", "Void", "Path", "StoragePath", "CapabilityPath", "PublicPath", "MetaType", "Block"}
	var sel1 []*Ty
	for _, n := range sel1names {
		sel1 = append(sel1, P(n))
	}
	for i := range compNames {
		sel1 = append(sel1, Comp(i))
	}
	for i := range ifaceNames {
		sel1 = append(sel1, Iface(i))
	}
	sel1 = append(sel1, IS(nil, "I1"), IS(nil, "I2"), IS(nil, "I1", "I2"), IS(nil, "RI"), IS(nil, "RJ"), IS(nil, "StructStringer"))

	d1 := wrap1(sel1, auths())
	for _, k := range hashableKeys() {
		for _, v := range []*Ty{P("Int"), P("AnyStruct"), P("Integer"), C("S1"), C("R1"), P("AnyResource"), P("Never"), IS(nil, "I1")} {
			d1 = append(d1, Dict(k, v))
		}
	}
	// InclusiveRange is only instantiable with leaf integer types
	for _, m := range []string{"Int", "Int8", "UInt8", "Word8", "Int256", "UInt"} {
		d1 = append(d1, Range(P(m)))
	}
	d1 = append(d1, funs([]*Ty{P("Int"), P("Integer"), P("AnyStruct"), C("S1"), I("I1"), I("I2"), IS(nil, "I1"), C("R1"), P("AnyResource"), P("Never"), P("Any")})...)
	for _, l := range legacy {
		d1 = append(d1, l)
	}

	// depth 2 over a smaller selection of depth-1 types
	sel2 := []*Ty{
		Opt(P("Int")), Opt(P("Integer")), Opt(P("AnyStruct")), Opt(P("Any")), Opt(P("Never")), Opt(C("S1")), Opt(I("I1")), Opt(C("R1")), Opt(P("AnyResource")),
		Opt(P("HashableStruct")), Opt(P("String")),
		Var(P("Int")), Var(P("Integer")), Var(P("AnyStruct")), Var(C("R1")), Var(C("S1")), Const(P("Int"), 2), Const(P("Integer"), 2),
		Dict(P("String"), P("Int")), Dict(P("String"), P("AnyStruct")), Dict(P("Int"), C("R1")),
		Ref(Auth{K: AUnauth}, P("Int")), Ref(Auth{K: AUnauth}, C("S1")), Ref(Auth{K: AConj, Ents: []int{0}}, C("S1")), Ref(Auth{K: AUnauth}, I("I1")),
		Ref(Auth{K: AConj, Ents: []int{0, 1}}, IS(nil, "I1")), Ref(Auth{K: ADisj, Ents: []int{0, 1}}, C("R1")), Ref(Auth{K: AUnauth}, P("AnyStruct")),
		Ref(Auth{K: AUnauth}, P("Any")), Ref(Auth{K: AConj, Ents: []int{0}}, P("AnyResource")),
		Cap(Ref(Auth{K: AUnauth}, P("Int"))), Cap(nil), Range(P("Int")), Range(P("UInt8")),
		Fun(FunTy{Ret: P("Void")}), Fun(FunTy{Ret: P("Int"), Params: []*Ty{P("Int")}}), Fun(FunTy{Ret: P("Integer"), Params: []*Ty{P("Int8")}, View: true}),
		IS(C("S1"), "I1"), IS(P("AnyStruct"), "I1"),
	}
	d2 := wrap1(sel2, auths()[:5])
	d2 = append(d2, funs(sel2[:24])...)
	for _, t := range sel2[:12] {
		d2 = append(d2, Dict(P("Int"), t))
	}

	// hand-picked corner types that are always kept
	corner := []*Ty{
		Opt(P("Any")), Opt(P("AnyStruct")), Opt(P("AnyResource")), Opt(P("Never")), Opt(Opt(P("Never"))), Opt(Opt(P("Int"))), Opt(Opt(P("AnyStruct"))),
		Opt(P("HashableStruct")), Opt(P("Int")), Opt(C("S1")), Opt(C("R1")), Opt(I("I1")), Opt(IS(nil, "I1")),
		Var(P("Never")), Var(P("Any")), Var(P("AnyStruct")), Var(P("AnyResource")), Var(C("R1")), Var(Var(P("Int"))), Var(Var(P("Integer"))),
		Dict(P("Never"), P("Never")), Dict(P("Int"), P("AnyStruct")), Dict(P("Integer"), P("Int")), Dict(P("HashableStruct"), P("AnyStruct")),
		Cap(Ref(Auth{K: AUnauth}, P("Any"))), Cap(Ref(Auth{K: AUnauth}, P("AnyStruct"))), Cap(Ref(Auth{K: AConj, Ents: []int{0}}, C("S1"))), Cap(Ref(Auth{K: AUnauth}, C("S1"))),
		Cap(P("Never")), Cap(P("Int")), Cap(P("AnyStruct")),
		Range(P("Int")), Range(P("Int8")),
		Ref(Auth{K: AUnauth}, P("Never")), Ref(Auth{K: AConj, Ents: []int{0}}, P("Never")),
		Ref(Auth{K: AUnauth}, IS(C("S1"), "I1")), Ref(Auth{K: AUnauth}, Opt(C("S1"))),
		// the same qualified names declared at a second address: distinct types
		Opt(C("S1@2")), Opt(Opt(C("S1@2"))), Opt(C("R1@2")), Var(C("S1@2")), Var(C("R1@2")), Const(C("S1@2"), 2), Dict(P("String"), C("S1@2")), Dict(C("En@2"), P("Int")),
		Dict(C("En"), P("Int")), Ref(Auth{K: AUnauth}, C("S1@2")), Ref(Auth{K: AConj, Ents: []int{0}}, C("S1@2")), Ref(Auth{K: AConj, Ents: []int{3}}, C("S1")),
		Ref(Auth{K: AConj, Ents: []int{3}}, C("S1@2")), Ref(Auth{K: AMap, Map: 1}, C("S1@2")), Ref(Auth{K: AUnauth}, IS(nil, "I1@2")), Ref(Auth{K: AUnauth}, C("R1@2")),
		Cap(Ref(Auth{K: AUnauth}, C("S1@2"))), Cap(Ref(Auth{K: AUnauth}, C("R1@2"))), Cap(Ref(Auth{K: AConj, Ents: []int{3}}, C("S1"))),
		IS(nil, "I1@2"), IS(nil, "I2@2"), IS(nil, "RI@2"), IS(nil, "I1", "I1@2"), IS(nil, "I1@2", "I2@2"), Opt(IS(nil, "I1@2")), Var(IS(nil, "RI@2")),
		Fun(FunTy{Ret: C("S1@2")}), Fun(FunTy{Ret: P("Void"), Params: []*Ty{C("S1@2")}}), Fun(FunTy{Ret: C("S1")}), Fun(FunTy{Ret: P("Void"), Params: []*Ty{C("S1")}}),
		Fun(FunTy{Ret: P("Never")}), Fun(FunTy{Ret: P("Any")}), Fun(FunTy{Ret: P("Void"), Params: []*Ty{P("Never")}}), Fun(FunTy{Ret: P("Void"), Params: []*Ty{P("Any")}}),
	}

	keep := dedup(append(append([]*Ty{}, d0...), corner...))
	for _, l := range legacy {
		keep = append(keep, l)
	}
	keep = dedup(keep)
	pool := dedup(append(append([]*Ty{}, d1...), d2...))
	kn := names(keep)
	var rest []*Ty
	for _, t := range pool {
		if !kn[t.String()] {
			rest = append(rest, t)
		}
	}
	target := 520
	if tier == "thorough" {
		target = 1700
	}
	// deterministic shuffle of the rest, then cut
	for i := len(rest) - 1; i > 0; i-- {
		j := rng.Intn(i + 1)
		rest[i], rest[j] = rest[j], rest[i]
	}
	n := target - len(keep)
	if n < 0 {
		n = 0
	}
	if n > len(rest) {
		n = len(rest)
	}
	sel := rest[:n]
	sort.SliceStable(sel, func(i, j int) bool { return sel[i].Depth() < sel[j].Depth() })
	return &Universe{Types: append(keep, sel...)}
}
