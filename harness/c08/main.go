// Command c08: C08 "subtyping is a consistent preorder across all implementations".
//
//	-mode gen   rules2coq: regenerate coq/theories/Gen/GenC08Subtype.v from rules.yaml
//	-mode run   evaluate the six real relations on all pairs of the enumerated type universe,
//	            compare them with each other, check reflexivity / bottom / top / transitivity on the
//	            real functions, and write Coq case files (universe, declaration environment as
//	            observed on the checker's objects, observed answers as bit rows)
//	-mode probe print disagreements and non-transitive triples (development aid)
package main

import (
	"encoding/json"
	"flag"
	"fmt"
	"math/big"
	"os"
	"path/filepath"
	"strings"

	"cvh/lib"

	"github.com/onflow/cadence/interpreter"
	"github.com/onflow/cadence/sema"
)

var (
	prop = flag.String("prop", "C08", "property id")
	seed = flag.Uint64("seed", 1, "seed")
	tier = flag.String("tier", "quick", "quick|thorough")
	dir  = flag.String("dir", ".", "output directory")
	mode = flag.String("mode", "run", "run|gen|probe")
	repo = flag.String("repo", "/repo", "path of the onflow/cadence tree (for rules.yaml)")
	out  = flag.String("out", "", "output file for -mode gen")
)

// the relations under comparison
const (
	RHand    = iota // sema.CheckSubTypeWithoutEquality (hand-written)
	RGen            // sema.CheckSubTypeWithoutEquality_gen
	RIGen           // interpreter.CheckSubTypeWithoutEquality_gen on converted static types
	RIs             // sema.IsSubType
	RIIs            // interpreter.IsSubType on converted static types
	RIIsSema        // interpreter.IsSubTypeOfSemaType(static sub, sema super)
	NRel
)

var relNames = []string{"sema.CheckSubTypeWithoutEquality", "sema.CheckSubTypeWithoutEquality_gen",
	"interpreter.CheckSubTypeWithoutEquality_gen", "sema.IsSubType", "interpreter.IsSubType", "interpreter.IsSubTypeOfSemaType"}

// outcome: 0 false, 1 true, 2 Go panic
type cell [NRel]uint8

func call(f func() bool) (r uint8) {
	defer func() {
		if x := recover(); x != nil {
			if os.Getenv("C08_DEBUG_PANIC") != "" {
				fmt.Fprintln(os.Stderr, "panic:", x)
			}
			r = 2
		}
	}()
	if f() {
		return 1
	}
	return 0
}

var outNames = []string{"false", "true", "PANIC"}

type World struct {
	Env    *Env
	U      *Universe
	Sema   []sema.Type
	Static []interpreter.StaticType
}

func NewWorld(rng *lib.Rng, tier string) *World {
	w := &World{Env: NewEnv(), U: BuildUniverse(rng, tier)}
	for _, t := range w.U.Types {
		st := w.Env.Sema(t)
		w.Sema = append(w.Sema, st)
		w.Static = append(w.Static, interpreter.ConvertSemaToStaticType(nil, st))
	}
	return w
}

func (w *World) Eval(i, j int) (c cell) {
	a, b := w.Sema[i], w.Sema[j]
	sa, sb := w.Static[i], w.Static[j]
	c[RHand] = call(func() bool { return sema.CheckSubTypeWithoutEquality(a, b) })
	c[RGen] = call(func() bool { return sema.CheckSubTypeWithoutEquality_gen(a, b) })
	c[RIGen] = call(func() bool { return interpreter.CheckSubTypeWithoutEquality_gen(w.Env.Inter, sa, sb) })
	c[RIs] = call(func() bool { return sema.IsSubType(a, b) })
	c[RIIs] = call(func() bool { return interpreter.IsSubType(w.Env.Inter, sa, sb) })
	c[RIIsSema] = call(func() bool { return interpreter.IsSubTypeOfSemaType(w.Env.Inter, sa, b) })
	return
}

func main() {
	flag.Parse()
	switch *mode {
	case "probe":
		doProbe()
	case "gen":
		doGen()
	case "run":
		doRun()
	default:
		fmt.Fprintln(os.Stderr, "unknown mode", *mode)
		os.Exit(2)
	}
}

func doGen() {
	yaml, err := os.ReadFile(*repo + "/tools/subtype-gen/rules.yaml")
	if err != nil {
		fmt.Fprintln(os.Stderr, "rules2coq:", err)
		os.Exit(3)
	}
	code, err := GenerateCoq(yaml)
	if err != nil {
		fmt.Fprintln(os.Stderr, err)
		os.Exit(3)
	}
	changed, err := WriteIfChanged(*out, code)
	if err != nil {
		fmt.Fprintln(os.Stderr, "rules2coq:", err)
		os.Exit(3)
	}
	fmt.Printf("rules2coq: %s (%d bytes, changed=%v)\n", *out, len(code), changed)
}

// ---------------------------------------------------------------------------------------------
// classification of types for the known defect classes

func isPrimNamed(t *Ty, n string) bool { return t != nil && t.K == KPrim && prims[t.Prim] == n }

// optOfPrim reports whether t = Optional^n(prim name) with n >= 1.
func optOfPrim(t *Ty, n string) bool {
	if t == nil || t.K != KOpt {
		return false
	}
	for t.K == KOpt {
		t = t.A
	}
	return isPrimNamed(t, n)
}

// transparentHas: does t contain the primitive `name` in a position through which IsResourceType
// looks (element of an optional / array / dictionary)?
func transparentHas(t *Ty, name string) bool {
	return t.Has(func(x *Ty) bool {
		switch x.K {
		case KOpt, KVar, KConst:
			return transparentLeaf(x.A, name)
		case KDict:
			return transparentLeaf(x.A, name) || transparentLeaf(x.B, name)
		}
		return false
	})
}

func transparentLeaf(t *Ty, name string) bool {
	switch t.K {
	case KPrim:
		return prims[t.Prim] == name
	case KOpt, KVar, KConst:
		return transparentLeaf(t.A, name)
	case KDict:
		return transparentLeaf(t.A, name) || transparentLeaf(t.B, name)
	}
	return false
}

func hasLegacy(t *Ty) bool {
	return t.Has(func(x *Ty) bool { return x.K == KInter && x.Legacy != nil })
}

func hasBareIface(t *Ty) bool { return t.Has(func(x *Ty) bool { return x.K == KIface }) }

func hasPrim(t *Ty, n string) bool { return t.Has(func(x *Ty) bool { return isPrimNamed(x, n) }) }

// pairKey gives the known-finding key for a disagreement between the run-time (static type)
// relations and the checker's relation on the pair (a, b).
func pairKey(kind string, a, b *Ty) string {
	hasOpt := func(t *Ty, n string) bool { return t.Has(func(x *Ty) bool { return optOfPrim(x, n) }) }
	switch {
	case hasOpt(a, "Never") && hasPrim(b, "AnyResource"):
		return kind + ":optional-Never-vs-AnyResource"
	case hasOpt(a, "Any") && hasPrim(b, "AnyStruct"):
		return kind + ":optional-Any-vs-AnyStruct"
	// contravariant positions: the roles are swapped
	case hasOpt(b, "Never") && hasPrim(a, "AnyResource"):
		return kind + ":optional-Never-vs-AnyResource"
	case hasOpt(b, "Any") && hasPrim(a, "AnyStruct"):
		return kind + ":optional-Any-vs-AnyStruct"
	}
	return fmt.Sprintf("%s:%s/%s", kind, kindNames[a.K], kindNames[b.K])
}

func tripleKey(a, b, c *Ty) string {
	any3 := func(f func(*Ty) bool) bool { return f(a) || f(b) || f(c) }
	switch {
	case any3(hasLegacy):
		return "legacy"
	case any3(func(t *Ty) bool { return transparentHas(t, "Never") }):
		return "trans:Never-inside-container"
	case any3(func(t *Ty) bool { return transparentHas(t, "Any") }):
		return "trans:Any-inside-container"
	case any3(hasBareIface):
		return "trans:bare-interface-supertype"
	}
	return fmt.Sprintf("trans:%s/%s/%s", kindNames[a.K], kindNames[b.K], kindNames[c.K])
}

// ---------------------------------------------------------------------------------------------

type bitrow []uint64

func newRow(n int) bitrow       { return make(bitrow, (n+63)/64) }
func (r bitrow) set(j int)      { r[j/64] |= 1 << uint(j%64) }
func (r bitrow) get(j int) bool { return r[j/64]>>uint(j%64)&1 == 1 }
func (r bitrow) big() *big.Int {
	z := new(big.Int)
	for i := len(r) - 1; i >= 0; i-- {
		z.Lsh(z, 64)
		z.Or(z, new(big.Int).SetUint64(r[i]))
	}
	return z
}

func doRun() {
	rng := lib.NewRng(*seed)
	sum := &lib.Summary{}
	w := NewWorld(rng, *tier)
	ts := w.U.Types
	n := len(ts)
	sum.Rule = "type universe over a checked declaration program (3 structs, 3 resources, 2 attachments, 1 enum, 5 interfaces in two inheritance " +
		"chains + StructStringer, 3 entitlements, 1 entitlement mapping): all primitive/nominal types, intersections, and depth<=2 " +
		"optionals/arrays/dictionaries/references (8 authorizations)/capabilities/functions/ranges; every ordered pair is evaluated by the six real " +
		"relations; non-trivial = ordered pairs of different types on which at least one relation answers true; transitivity is checked exhaustively over all triples of the universe"
	m := make([][]cell, n)
	rowGen := make([]bitrow, n)
	rowIs := make([]bitrow, n)
	rowIIs := make([]bitrow, n)
	rowRt := make([]bitrow, n)
	for i := 0; i < n; i++ {
		m[i] = make([]cell, n)
		rowGen[i], rowIs[i], rowIIs[i], rowRt[i] = newRow(n), newRow(n), newRow(n), newRow(n)
		for j := 0; j < n; j++ {
			c := w.Eval(i, j)
			m[i][j] = c
			sum.Evaluations += NRel
			if c[RGen] == 1 {
				rowGen[i].set(j)
			}
			if c[RIs] == 1 {
				rowIs[i].set(j)
			}
			if c[RIIs] == 1 {
				rowIIs[i].set(j)
			}
			if c[RIIsSema] == 1 {
				rowRt[i].set(j)
			}
			nontrivial := false
			for r := 0; r < NRel; r++ {
				if c[r] == 1 && i != j {
					nontrivial = true
				}
				if c[r] == 2 {
					sum.Fail("panic:"+relNames[r]+":"+kindNames[ts[i].K]+"/"+kindNames[ts[j].K], fmt.Sprintf("%s panics on %s <: %s", relNames[r], ts[i], ts[j]),
						map[string]any{"sub": ts[i].String(), "super": ts[j].String(), "relation": relNames[r]})
				}
			}
			if nontrivial {
				sum.DistinctNontrivial++
				sum.Count("positive " + kindNames[ts[i].K] + " <: " + kindNames[ts[j].K])
				if sum.DistinctNontrivial%997 == 1 {
					sum.Sample(map[string]string{"sub": ts[i].String(), "super": ts[j].String(), "IsSubType": outNames[c[RIs]]})
				}
			}
			report := func(x, y int, kind string) {
				if c[x] == c[y] || c[x] == 2 || c[y] == 2 {
					return
				}
				key := pairKey(kind, ts[i], ts[j])
				sum.Count("disagreement " + key)
				sum.Fail(key, fmt.Sprintf("%s <: %s : %s = %s but %s = %s", ts[i], ts[j], relNames[x], outNames[c[x]], relNames[y], outNames[c[y]]),
					map[string]any{"sub": ts[i].String(), "super": ts[j].String(), relNames[x]: outNames[c[x]], relNames[y]: outNames[c[y]],
						"sub_coq": ts[i].Coq(), "super_coq": ts[j].Coq()})
			}
			report(RHand, RGen, "handwritten-vs-generated")
			report(RIGen, RGen, "static-generated-vs-checker-generated")
			report(RIIs, RIs, "runtime-vs-checker")
			report(RIIsSema, RIs, "runtime-vs-checker")
		}
	}
	// preorder laws on the real functions
	never, anyIdx := -1, -1
	for i, t := range ts {
		if isPrimNamed(t, "Never") {
			never = i
		}
		if isPrimNamed(t, "Any") {
			anyIdx = i
		}
	}
	for _, rel := range []struct {
		name string
		rows []bitrow
	}{{"sema.IsSubType", rowIs}, {"interpreter.IsSubType", rowIIs}} {
		for i := 0; i < n; i++ {
			sum.Evaluations += 3
			if !rel.rows[i].get(i) {
				sum.Fail("refl:"+kindNames[ts[i].K], fmt.Sprintf("%s(%s, %s) = false", rel.name, ts[i], ts[i]), map[string]any{"type": ts[i].String(), "relation": rel.name})
			}
			if !rel.rows[never].get(i) {
				sum.Fail("bottom:"+kindNames[ts[i].K], fmt.Sprintf("%s(Never, %s) = false", rel.name, ts[i]), map[string]any{"type": ts[i].String(), "relation": rel.name})
			}
			if !rel.rows[i].get(anyIdx) {
				sum.Fail("top:"+kindNames[ts[i].K], fmt.Sprintf("%s(%s, Any) = false", rel.name, ts[i]), map[string]any{"type": ts[i].String(), "relation": rel.name})
			}
		}
	}
	// transitivity of sema.IsSubType, exhaustively: for every i <: j, row(j) must be included in row(i)
	ntriples := 0
	perKey := map[string]int{}
	for i := 0; i < n; i++ {
		for j := 0; j < n; j++ {
			if !rowIs[i].get(j) || i == j {
				continue
			}
			ntriples++
			bad := false
			for wd := range rowIs[j] {
				if rowIs[j][wd]&^rowIs[i][wd] != 0 {
					bad = true
					break
				}
			}
			if !bad {
				continue
			}
			for k := 0; k < n; k++ {
				if rowIs[j].get(k) && !rowIs[i].get(k) {
					key := tripleKey(ts[i], ts[j], ts[k])
					perKey[key]++
					sum.Count("non-transitive " + key)
					if key == "legacy" {
						// legacy restricted types (T{Us}) cannot be written in programs: outside the property
						continue
					}
					if perKey[key] <= 3 {
						sum.Fail(key, fmt.Sprintf("sema.IsSubType is not transitive: %s <: %s and %s <: %s but not %s <: %s", ts[i], ts[j], ts[j], ts[k], ts[i], ts[k]),
							map[string]any{"a": ts[i].String(), "b": ts[j].String(), "c": ts[k].String(),
								"a_coq": ts[i].Coq(), "b_coq": ts[j].Coq(), "c_coq": ts[k].Coq()})
					}
				}
			}
		}
	}
	sum.Evaluations += ntriples * n
	sum.Extra = map[string]any{"universe": n, "pairs": n * n, "positive_pairs_checked_for_transitivity": ntriples, "triples": ntriples * n}
	for _, t := range ts {
		sum.Count("universe " + kindNames[t.K])
		sum.Count(fmt.Sprintf("universe depth %d", t.Depth()))
	}

	// Coq case files
	perFile := 60
	var files []string
	var univ []string
	for _, t := range ts {
		univ = append(univ, t.Coq())
	}
	header := "From Coq Require Import ZArith List Bool.\nFrom CV Require Import C08.Cases C08.Wf.\nImport ListNotations.\nOpen Scope Z_scope.\n" +
		w.Env.CoqEnv() +
		"Definition univ : list ty := [\n" + strings.Join(univ, ";\n") + "\n].\n"
	for f := 0; f*perFile < n; f++ {
		var b strings.Builder
		b.WriteString(header)
		b.WriteString("Definition rows : list (Z * ty * Z * Z * Z) := [\n")
		for i := f * perFile; i < n && i < (f+1)*perFile; i++ {
			if i > f*perFile {
				b.WriteString(";\n")
			}
			fmt.Fprintf(&b, "(%d, %s, %s, %s, %s)", i, ts[i].Coq(), rowGen[i].big(), rowIs[i].big(), rowRt[i].big())
		}
		b.WriteString("\n].\n")
		b.WriteString("Definition envok := Eval vm_compute in (wf_env_b env0).\nPrint envok.\n")
		fmt.Fprintf(&b, "Definition mism := Eval vm_compute in (firstn 300 (all_mism env0 univ %d rows)).\nPrint mism.\n", n)
		path := filepath.Join(*dir, fmt.Sprintf("cases_C08_%03d.v", f))
		if err := os.WriteFile(path, []byte(b.String()), 0o644); err != nil {
			panic(err)
		}
		files = append(files, path)
	}
	sum.CaseFiles = files
	var us []string
	for _, t := range ts {
		us = append(us, t.String())
	}
	ub, _ := json.Marshal(map[string]any{"types": us, "coq": univ})
	if err := os.WriteFile(filepath.Join(*dir, "universe.json"), ub, 0o644); err != nil {
		panic(err)
	}
	sum.Write(*dir)
}

// ---------------------------------------------------------------------------------------------

func doProbe() {
	rng := lib.NewRng(*seed)
	w := NewWorld(rng, *tier)
	n := len(w.U.Types)
	fmt.Println("universe", n)
	m := make([][]cell, n)
	dis := map[string]int{}
	for i := 0; i < n; i++ {
		m[i] = make([]cell, n)
		for j := 0; j < n; j++ {
			c := w.Eval(i, j)
			m[i][j] = c
			key := ""
			if c[RHand] != c[RGen] {
				key += "hand!=gen "
			}
			if c[RIGen] != c[RGen] {
				key += "igen!=gen "
			}
			if c[RIIs] != c[RIs] {
				key += "iis!=is "
			}
			if c[RIIsSema] != c[RIs] {
				key += "iissema!=is "
			}
			for r := 0; r < NRel; r++ {
				if c[r] == 2 {
					key += "panic:" + relNames[r] + " "
				}
			}
			if key != "" {
				key += pairKey("", w.U.Types[i], w.U.Types[j])
				dis[key]++
				if dis[key] <= 6 {
					fmt.Printf("DIS %s: %s <: %s  %v\n", key, w.U.Types[i], w.U.Types[j], c)
				}
			}
		}
	}
	fmt.Println("disagreement classes:", dis)
	is := func(i, j int) bool { return m[i][j][RIs] == 1 }
	cls := map[string]int{}
	for i := 0; i < n; i++ {
		for j := 0; j < n; j++ {
			if !is(i, j) {
				continue
			}
			for k := 0; k < n; k++ {
				if is(j, k) && !is(i, k) {
					key := tripleKey(w.U.Types[i], w.U.Types[j], w.U.Types[k])
					cls[key]++
					if cls[key] <= 6 && key != "legacy" {
						fmt.Printf("NOT TRANS [%s] %s <: %s <: %s\n", key, w.U.Types[i], w.U.Types[j], w.U.Types[k])
					}
				}
			}
		}
	}
	fmt.Println("non-transitive triples:", cls)
}
