package main

import (
	stdjson "encoding/json"
	"fmt"
	"math/big"
	"strings"

	"github.com/onflow/cadence"
	"github.com/onflow/cadence/common"
	jsoncdc "github.com/onflow/cadence/encoding/json"
)

// ---------------------------------------------------------------- direct oracle over cadence.Type / cadence.Value

var numSet = func() map[string]bool {
	m := map[string]bool{}
	for _, k := range numKinds {
		m[k] = true
	}
	return m
}()

var absSet = func() map[string]bool {
	m := map[string]bool{}
	for _, k := range absKinds {
		m[k] = true
	}
	return m
}()

var absSub = map[string][]string{
	"SignedInteger":            {"SignedNumber", "Integer", "Number"},
	"SignedFixedPoint":         {"SignedNumber", "FixedPoint", "Number"},
	"FixedSizeUnsignedInteger": {"Integer", "Number"},
	"Integer":                  {"Number"}, "SignedNumber": {"Number"}, "FixedPoint": {"Number"},
}

var pathSub = map[string][]string{
	"StoragePath": {"Path"}, "PublicPath": {"CapabilityPath", "Path"}, "PrivatePath": {"CapabilityPath", "Path"},
	"CapabilityPath": {"Path"},
}

func contains(xs []string, x string) bool {
	for _, y := range xs {
		if x == y {
			return true
		}
	}
	return false
}

// subtypeC: a <: b on exported types (Never bottom; T <: T?; optionals, arrays, dictionaries covariant;
// number and path hierarchies; references are exported by value, so &T is read as T).
func subtypeC(a, b cadence.Type) bool {
	if r, ok := b.(*cadence.ReferenceType); ok {
		return subtypeC(a, r.Type)
	}
	if r, ok := a.(*cadence.ReferenceType); ok {
		return subtypeC(r.Type, b)
	}
	if a.ID() == "Never" {
		return true
	}
	switch bt := b.(type) {
	case *cadence.OptionalType:
		if at, ok := a.(*cadence.OptionalType); ok {
			return subtypeC(at.Type, bt.Type)
		}
		return subtypeC(a, bt.Type)
	case *cadence.VariableSizedArrayType:
		at, ok := a.(*cadence.VariableSizedArrayType)
		return ok && subtypeC(at.ElementType, bt.ElementType)
	case *cadence.ConstantSizedArrayType:
		at, ok := a.(*cadence.ConstantSizedArrayType)
		return ok && at.Size == bt.Size && subtypeC(at.ElementType, bt.ElementType)
	case *cadence.DictionaryType:
		at, ok := a.(*cadence.DictionaryType)
		return ok && subtypeC(at.KeyType, bt.KeyType) && subtypeC(at.ElementType, bt.ElementType)
	}
	ai, bi := a.ID(), b.ID()
	if ai == bi {
		return true
	}
	if absSet[bi] {
		if numSet[ai] {
			return numIn(ai, bi)
		}
		return contains(absSub[ai], bi)
	}
	return contains(pathSub[ai], bi)
}

// conforms: v is a proper exported value for a field declared with type t: boxed to the declared
// optional depth, runtime type a subtype of the declared type, containers consistent with their own
// static types, composite fields conforming to the composite's declared field types.
func conforms(v cadence.Value, t cadence.Type) string {
	if r, ok := t.(*cadence.ReferenceType); ok {
		return conforms(v, r.Type)
	}
	if ot, ok := t.(*cadence.OptionalType); ok {
		o, isOpt := v.(cadence.Optional)
		if !isOpt {
			return fmt.Sprintf("value %s (%T) is not boxed for declared type %s", v, v, t.ID())
		}
		if o.Value == nil {
			return ""
		}
		return conforms(o.Value, ot.Type)
	}
	if v == nil {
		return "nil Go value"
	}
	rt := v.Type()
	if rt == nil {
		return fmt.Sprintf("value %s has no type", v)
	}
	if !subtypeC(rt, t) {
		return fmt.Sprintf("runtime type %s of %s is not a subtype of declared %s", rt.ID(), v, t.ID())
	}
	switch x := v.(type) {
	case cadence.Optional:
		return fmt.Sprintf("optional value %s for non-optional declared type %s", v, t.ID())
	case cadence.Array:
		var et cadence.Type
		switch at := x.ArrayType.(type) {
		case *cadence.VariableSizedArrayType:
			et = at.ElementType
		case *cadence.ConstantSizedArrayType:
			et = at.ElementType
			if int(at.Size) != len(x.Values) {
				return "constant-sized array length mismatch"
			}
		default:
			return "array without array type"
		}
		for _, e := range x.Values {
			if r := conforms(e, et); r != "" {
				return "element: " + r
			}
		}
	case cadence.Dictionary:
		dt := x.DictionaryType
		for _, p := range x.Pairs {
			if r := conforms(p.Key, dt.KeyType); r != "" {
				return "key: " + r
			}
			if r := conforms(p.Value, dt.ElementType); r != "" {
				return "value: " + r
			}
		}
	case cadence.Struct:
		ft := x.StructType.FieldsMappedByName()
		for n, fv := range cadence.FieldsMappedByName(x) {
			if r := conforms(fv, ft[n]); r != "" {
				return "struct field " + n + ": " + r
			}
		}
	}
	return ""
}

// ---------------------------------------------------------------- projection to model values

// fieldOrder returns the names of a composite value's fields in payload order (JSON-Cadence encodes
// fields positionally against the composite type's fields).
func fieldOrder(v cadence.Value) ([]string, error) {
	b, err := jsoncdc.Encode(v)
	if err != nil {
		return nil, err
	}
	var doc struct {
		Value struct {
			Fields []struct {
				Name string `json:"name"`
			} `json:"fields"`
		} `json:"value"`
	}
	if err := stdjson.Unmarshal(b, &doc); err != nil {
		return nil, err
	}
	var out []string
	for _, f := range doc.Value.Fields {
		out = append(out, f.Name)
	}
	return out, nil
}

func structIndex(id string) int {
	// "A.0000000000000001.A.P3" -> 3
	i := strings.LastIndex(id, ".P")
	n := 0
	fmt.Sscanf(id[i+2:], "%d", &n)
	return n
}

func toTy(t cadence.Type) *Ty {
	switch x := t.(type) {
	case *cadence.OptionalType:
		return &Ty{K: "opt", Elem: toTy(x.Type)}
	case *cadence.VariableSizedArrayType:
		return &Ty{K: "varr", Elem: toTy(x.ElementType)}
	case *cadence.ConstantSizedArrayType:
		return &Ty{K: "carr", N: int(x.Size), Elem: toTy(x.ElementType)}
	case *cadence.DictionaryType:
		return &Ty{K: "dict", Key: toTy(x.KeyType), Elem: toTy(x.ElementType)}
	case *cadence.StructType:
		return &Ty{K: "struct", Struct: structIndex(x.ID())}
	}
	id := t.ID()
	switch {
	case numSet[id]:
		return &Ty{K: "num", Name: id}
	case absSet[id]:
		return &Ty{K: "abs", Name: id}
	case id == "Bool":
		return &Ty{K: "bool"}
	case id == "String":
		return &Ty{K: "string"}
	case id == "Character":
		return &Ty{K: "char"}
	case id == "Address":
		return &Ty{K: "address"}
	case id == "Type":
		return &Ty{K: "meta"}
	case id == "Never":
		return &Ty{K: "never"}
	case pathCoq[id] != "":
		return &Ty{K: "path", Name: id}
	}
	panic("unsupported exported type " + id)
}

func toVal(v cadence.Value) *Val {
	switch x := v.(type) {
	case cadence.Optional:
		if x.Value == nil {
			return &Val{K: "nil"}
		}
		return &Val{K: "some", In: toVal(x.Value)}
	case cadence.Bool:
		return &Val{K: "bool", B: bool(x)}
	case cadence.String:
		return &Val{K: "str", S: string(x)}
	case cadence.Character:
		return &Val{K: "char", S: string(x)}
	case cadence.Address:
		return &Val{K: "addr", Z: new(big.Int).SetBytes(x[:])}
	case cadence.Path:
		d := map[common.PathDomain]string{common.PathDomainStorage: "storage", common.PathDomainPublic: "public", common.PathDomainPrivate: "private"}[x.Domain]
		return &Val{K: "path", Dom: d, S: x.Identifier}
	case cadence.TypeValue:
		return &Val{K: "meta", S: x.StaticType.ID()}
	case cadence.Array:
		out := &Val{K: "arr", T: toTy(x.ArrayType)}
		for _, e := range x.Values {
			out.L = append(out.L, toVal(e))
		}
		return out
	case cadence.Dictionary:
		out := &Val{K: "dict", T: toTy(x.DictionaryType)}
		for _, p := range x.Pairs {
			out.KV = append(out.KV, [2]*Val{toVal(p.Key), toVal(p.Value)})
		}
		return out
	case cadence.Struct:
		names, err := fieldOrder(x)
		if err != nil {
			panic(err)
		}
		m := cadence.FieldsMappedByName(x)
		out := &Val{K: "struct", ID: structIndex(x.StructType.ID())}
		for _, n := range names {
			out.L = append(out.L, toVal(m[n]))
		}
		return out
	}
	id := v.Type().ID()
	if numSet[id] {
		s := strings.Replace(v.String(), ".", "", 1)
		z, ok := new(big.Int).SetString(s, 10)
		if !ok {
			panic("cannot parse number " + v.String())
		}
		return &Val{K: "num", Num: id, Z: z}
	}
	panic(fmt.Sprintf("unsupported exported value %T %s", v, v))
}

// ObsEvent: one host-received event, projected.
type ObsEvent struct {
	TypeID string
	Names  []string
	Vals   []*Val
	Raw    cadence.Event
}

func observeEvent(e cadence.Event) (o ObsEvent, err error) {
	defer func() {
		if r := recover(); r != nil {
			err = fmt.Errorf("%v", r)
		}
	}()
	o.Raw = e
	o.TypeID = e.EventType.ID()
	names, ferr := fieldOrder(e)
	if ferr != nil {
		return o, ferr
	}
	m := cadence.FieldsMappedByName(e)
	for _, n := range names {
		o.Names = append(o.Names, n)
		o.Vals = append(o.Vals, toVal(m[n]))
	}
	return o, nil
}

func (o ObsEvent) coq() string {
	parts := make([]string, len(o.Names))
	for i := range o.Names {
		parts[i] = "(" + coqName(o.Names[i]) + ", " + o.Vals[i].coq() + ")"
	}
	return "Event " + coqName(o.TypeID) + " [" + strings.Join(parts, "; ") + "]"
}

func coqEvents(es []ObsEvent) string {
	parts := make([]string, len(es))
	for i, e := range es {
		parts[i] = e.coq()
	}
	return "[" + strings.Join(parts, ";\n  ") + "]"
}

func cadenceFields(e cadence.Event) map[string]cadence.Value { return cadence.FieldsMappedByName(e) }
