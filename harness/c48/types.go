package main

import (
	"fmt"
	"math/big"
	"sort"
	"strings"
)

// Types and values mirror coq/theories/C48/Model.v; each is rendered as Cadence source and as a Coq term.

type Ty struct {
	K      string // never num abs bool string char address path meta opt varr carr dict struct
	Name   string // num: Int8..., abs: Integer..., path: StoragePath|PublicPath|PrivatePath|CapabilityPath|Path
	Elem   *Ty
	N      int
	Key    *Ty
	Struct int
}

var numKinds = []string{"Int", "UInt", "Int8", "Int16", "Int32", "Int64", "Int128", "Int256",
	"UInt8", "UInt16", "UInt32", "UInt64", "UInt128", "UInt256",
	"Word8", "Word16", "Word32", "Word64", "Word128", "Word256", "Fix64", "UFix64"}

var absKinds = []string{"Number", "SignedNumber", "Integer", "SignedInteger", "FixedSizeUnsignedInteger", "FixedPoint", "SignedFixedPoint"}

var pathCoq = map[string]string{"StoragePath": "PStorage", "PublicPath": "PPublic", "PrivatePath": "PPrivate", "CapabilityPath": "PCapability", "Path": "PAnyPath"}

func (t *Ty) cdc(structPrefix string) string {
	switch t.K {
	case "never":
		return "Never"
	case "num", "abs", "path":
		return t.Name
	case "bool":
		return "Bool"
	case "string":
		return "String"
	case "char":
		return "Character"
	case "address":
		return "Address"
	case "meta":
		return "Type"
	case "opt":
		return "(" + t.Elem.cdc(structPrefix) + ")?"
	case "varr":
		return "[" + t.Elem.cdc(structPrefix) + "]"
	case "carr":
		return fmt.Sprintf("[%s; %d]", t.Elem.cdc(structPrefix), t.N)
	case "dict":
		return "{" + t.Key.cdc(structPrefix) + ": " + t.Elem.cdc(structPrefix) + "}"
	case "struct":
		return fmt.Sprintf("%sP%d", structPrefix, t.Struct)
	}
	panic("ty " + t.K)
}

func (t *Ty) coq() string {
	switch t.K {
	case "never":
		return "TNever"
	case "num":
		return "(TNum N" + t.Name + ")"
	case "abs":
		return "(TAbs A" + t.Name + ")"
	case "path":
		return "(TPath " + pathCoq[t.Name] + ")"
	case "bool":
		return "TBool"
	case "string":
		return "TString"
	case "char":
		return "TChar"
	case "address":
		return "TAddress"
	case "meta":
		return "TMeta"
	case "opt":
		return "(TOpt " + t.Elem.coq() + ")"
	case "varr":
		return "(TVArr " + t.Elem.coq() + ")"
	case "carr":
		return fmt.Sprintf("(TCArr %d%%nat %s)", t.N, t.Elem.coq())
	case "dict":
		return "(TDict " + t.Key.coq() + " " + t.Elem.coq() + ")"
	case "struct":
		return fmt.Sprintf("(TStruct %d%%nat)", t.Struct)
	}
	panic("ty " + t.K)
}

func numRange(k string) (lo, hi *big.Int) {
	two := big.NewInt(2)
	pow := func(n int64) *big.Int { return new(big.Int).Exp(two, big.NewInt(n), nil) }
	bits := map[string]int64{"8": 8, "16": 16, "32": 32, "64": 64, "128": 128, "256": 256}
	switch {
	case k == "Int":
		return nil, nil
	case k == "UInt":
		return big.NewInt(0), nil
	case k == "Fix64":
		return new(big.Int).Neg(pow(63)), new(big.Int).Sub(pow(63), big.NewInt(1))
	case k == "UFix64":
		return big.NewInt(0), new(big.Int).Sub(pow(64), big.NewInt(1))
	case strings.HasPrefix(k, "Int"):
		n := bits[k[3:]]
		return new(big.Int).Neg(pow(n - 1)), new(big.Int).Sub(pow(n-1), big.NewInt(1))
	case strings.HasPrefix(k, "UInt"):
		return big.NewInt(0), new(big.Int).Sub(pow(bits[k[4:]]), big.NewInt(1))
	case strings.HasPrefix(k, "Word"):
		return big.NewInt(0), new(big.Int).Sub(pow(bits[k[4:]]), big.NewInt(1))
	}
	panic(k)
}

func numIn(k, a string) bool {
	signedInt := k == "Int" || (strings.HasPrefix(k, "Int") && k != "Int")
	fixedUnsigned := (strings.HasPrefix(k, "UInt") && k != "UInt") || strings.HasPrefix(k, "Word")
	fixedPoint := k == "Fix64" || k == "UFix64"
	switch a {
	case "Number":
		return true
	case "SignedNumber":
		return signedInt || k == "Fix64"
	case "Integer":
		return !fixedPoint
	case "SignedInteger":
		return signedInt
	case "FixedSizeUnsignedInteger":
		return fixedUnsigned
	case "FixedPoint":
		return fixedPoint
	case "SignedFixedPoint":
		return k == "Fix64"
	}
	panic(a)
}

type Val struct {
	K    string // num bool str char addr path meta nil some arr dict struct
	Num  string
	Z    *big.Int
	B    bool
	S    string
	Dom  string // storage public private
	In   *Val
	T    *Ty // arr: own static type; dict: Key/Elem in T (K=dict)
	L    []*Val
	KV   [][2]*Val
	ID   int
	Expr string // Cadence expression producing the value (generator side only)
}

// zlist packs the bytes of s (after a leading 1 byte) into one Coq Z literal: text is opaque to the model.
func zlist(s string) string {
	return new(big.Int).SetBytes(append([]byte{1}, s...)).String()
}

func coqBig(z *big.Int) string {
	if z.Sign() < 0 {
		return "(" + z.String() + ")"
	}
	return z.String()
}

func (v *Val) coq() string {
	switch v.K {
	case "num":
		return "(VNum N" + v.Num + " " + coqBig(v.Z) + ")"
	case "bool":
		if v.B {
			return "(VBool true)"
		}
		return "(VBool false)"
	case "str":
		return "(VStr " + zlist(v.S) + ")"
	case "char":
		return "(VChar " + zlist(v.S) + ")"
	case "addr":
		return "(VAddr " + coqBig(v.Z) + ")"
	case "path":
		d := map[string]string{"storage": "DStorage", "public": "DPublic", "private": "DPrivate"}[v.Dom]
		return "(VPath " + d + " " + zlist(v.S) + ")"
	case "meta":
		return "(VMeta " + zlist(v.S) + ")"
	case "nil":
		return "VNil"
	case "some":
		return "(VSome " + v.In.coq() + ")"
	case "arr":
		return "(VArr " + v.T.coq() + " " + coqVals(v.L) + ")"
	case "dict":
		parts := make([]string, len(v.KV))
		for i, kv := range v.sortedKV() {
			parts[i] = "(" + kv[0].coq() + ", " + kv[1].coq() + ")"
		}
		return "(VDict " + v.T.Key.coq() + " " + v.T.Elem.coq() + " [" + strings.Join(parts, "; ") + "])"
	case "struct":
		return fmt.Sprintf("(VStruct %d%%nat %s)", v.ID, coqVals(v.L))
	}
	panic("val " + v.K)
}

// sortedKV: dictionaries are compared as key-sorted lists (export order is not constrained).
func (v *Val) sortedKV() [][2]*Val {
	kv := append([][2]*Val{}, v.KV...)
	sort.SliceStable(kv, func(i, j int) bool { return kv[i][0].coq() < kv[j][0].coq() })
	return kv
}

func coqVals(vs []*Val) string {
	parts := make([]string, len(vs))
	for i, x := range vs {
		parts[i] = x.coq()
	}
	return "[" + strings.Join(parts, "; ") + "]"
}

func typeOf(v *Val) *Ty {
	switch v.K {
	case "num":
		return &Ty{K: "num", Name: v.Num}
	case "bool":
		return &Ty{K: "bool"}
	case "str":
		return &Ty{K: "string"}
	case "char":
		return &Ty{K: "char"}
	case "addr":
		return &Ty{K: "address"}
	case "path":
		return &Ty{K: "path", Name: map[string]string{"storage": "StoragePath", "public": "PublicPath", "private": "PrivatePath"}[v.Dom]}
	case "meta":
		return &Ty{K: "meta"}
	case "nil":
		return &Ty{K: "opt", Elem: &Ty{K: "never"}}
	case "some":
		return &Ty{K: "opt", Elem: typeOf(v.In)}
	case "arr", "dict":
		return v.T
	case "struct":
		return &Ty{K: "struct", Struct: v.ID}
	}
	panic(v.K)
}

// boxTo: BoxOptional, used only to build container elements / struct fields of generated arguments
// (the top-level conversion of an emit argument is left to the implementation and to the Coq model).
func boxTo(v *Val, t *Ty) *Val {
	value, inner := v, v
	for t.K == "opt" {
		switch inner.K {
		case "some":
			inner = inner.In
		case "nil":
			return inner
		default:
			value = &Val{K: "some", In: value}
		}
		t = t.Elem
	}
	return value
}

func coqName(s string) string { return zlist(s) }
