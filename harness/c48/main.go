// Command c48: correspondence + direct-oracle harness for C48 (emitted events conform to their
// declared types). Generated contracts A (structs, events, a resource interface with a default
// destruction event, a struct interface with emit conditions) and B (imports A: events, an
// implementation of the struct interface with own emit conditions, resources with default
// destruction events, nested) are deployed; a script runs B.run() in each engine. The events the
// host receives are checked DIRECTLY against the declared types (type ID, field count / names /
// order, declared field types, every value conforming to its declared type) and written, together
// with the emit arguments / resource values, to Coq case files for the model.
package main

import (
	"flag"
	"fmt"
	"os"
	"strings"

	"cvh/lib"

	"github.com/onflow/cadence/common"
)

var (
	prop = flag.String("prop", "C48", "property id")
	seed = flag.Uint64("seed", 1, "seed")
	tier = flag.String("tier", "quick", "quick|thorough")
	dir  = flag.String("dir", ".", "output directory")
	dump = flag.Bool("dump", false, "print generated sources (debug)")
)

const addrA = "0000000000000001"
const addrB = "0000000000000002"

type program struct {
	g        *gen
	evA, evB []*EvDecl
	condA    [2]*Emit // inherited pre / post emit conditions (events of A)
	condB    [2]*Emit // own pre / post emit conditions (events of B)
	bodyB    *Emit
	emitsA   []*Emit
	emitsB   []*Emit
	ri       []Field // fields of resource interface A.RI (nil: no interface)
	riEvent  *DEvent
	res      []*ResDecl
	rvals    []*RVal  // destroyed, in order
	runStmts []string // statements of B.run() creating / mutating / destroying the resources
}

func main() {
	flag.Parse()
	sum := &lib.Summary{}
	if *prop != "C48" {
		fmt.Fprintln(os.Stderr, "unknown prop", *prop)
		os.Exit(2)
	}
	c48(sum)
	sum.Write(*dir)
}

func fieldDecls(fs []Field, ind string, setters bool, iface bool) string {
	var sb strings.Builder
	for _, f := range fs {
		fmt.Fprintf(&sb, "%saccess(all) var %s: %s\n", ind, f.Name, f.T.cdc(""))
		if setters {
			if iface {
				fmt.Fprintf(&sb, "%saccess(all) fun set_%s(_ v: %s)\n", ind, f.Name, f.T.cdc(""))
			} else {
				fmt.Fprintf(&sb, "%saccess(all) fun set_%s(_ v: %s) { self.%s = v }\n", ind, f.Name, f.T.cdc(""), f.Name)
			}
		}
	}
	return sb.String()
}

func (p *program) contractA() string {
	var sb strings.Builder
	sb.WriteString("access(all) contract A {\n")
	for i, fts := range p.g.structs {
		fmt.Fprintf(&sb, "    access(all) struct P%d {\n", i)
		var ps, as []string
		for j, ft := range fts {
			fmt.Fprintf(&sb, "        access(all) let f%d: %s\n", j, ft.cdc(""))
			ps = append(ps, fmt.Sprintf("f%d: %s", j, ft.cdc("")))
			as = append(as, fmt.Sprintf("self.f%d = f%d", j, j))
		}
		fmt.Fprintf(&sb, "        view init(%s) { %s }\n    }\n", strings.Join(ps, ", "), strings.Join(as, "; "))
	}
	for _, e := range p.evA {
		sb.WriteString("    " + e.cdc("") + "\n")
	}
	if p.ri != nil {
		sb.WriteString("    access(all) resource interface RI {\n")
		sb.WriteString(fieldDecls(p.ri, "        ", true, true))
		sb.WriteString("        " + p.riEvent.cdc() + "\n    }\n")
	}
	sb.WriteString("    access(all) struct interface SI {\n        access(all) fun f(_ a: Int): Int {\n")
	sb.WriteString("            pre { " + p.condA[0].cdc("", "") + " }\n")
	sb.WriteString("            post { " + p.condA[1].cdc("", "") + " }\n        }\n    }\n")
	sb.WriteString("    access(all) view fun yes(): Bool { return true }\n    access(all) view fun no(): Bool { return false }\n")
	sb.WriteString("    access(all) view fun optInt(_ x: Int): Int? { return x }\n    access(all) view fun optString(_ x: String): String? { return x }\n")
	sb.WriteString("    access(all) fun emitAll() {\n")
	for _, e := range p.emitsA {
		sb.WriteString("        " + e.cdc("", "") + "\n")
	}
	sb.WriteString("    }\n}\n")
	return sb.String()
}

func (p *program) resource(i int) string {
	r := p.res[i]
	var sb strings.Builder
	conf := ""
	if r.Inherit != nil {
		conf = ": A.RI"
	}
	fmt.Fprintf(&sb, "    access(all) resource %s%s {\n", r.Name, conf)
	var ps, as []string
	for k, nd := range r.Nested {
		fmt.Fprintf(&sb, "        access(all) var n%d: @R%d\n", k, nd)
		ps = append(ps, fmt.Sprintf("n%d: @R%d", k, nd))
		as = append(as, fmt.Sprintf("self.n%d <- n%d", k, k))
	}
	sb.WriteString(fieldDecls(r.Fields, "        ", true, false))
	for _, f := range r.Fields {
		ps = append(ps, f.Name+": "+f.T.cdc(""))
		as = append(as, fmt.Sprintf("self.%s = %s", f.Name, f.Name))
	}
	if r.Own != nil {
		sb.WriteString("        " + r.Own.cdc() + "\n")
	}
	fmt.Fprintf(&sb, "        init(%s) { %s }\n    }\n", strings.Join(ps, ", "), strings.Join(as, "; "))
	return sb.String()
}

func (p *program) contractB() string {
	var sb strings.Builder
	sb.WriteString("import A from 0x1\naccess(all) contract B {\n")
	for _, e := range p.evB {
		sb.WriteString("    " + e.cdc("A.") + "\n")
	}
	sb.WriteString("    access(all) struct S: A.SI {\n        access(all) fun f(_ a: Int): Int {\n")
	sb.WriteString("            pre { " + p.condB[0].cdc("A.", "") + " }\n")
	sb.WriteString("            post { " + p.condB[1].cdc("A.", "") + " }\n")
	sb.WriteString("            " + p.bodyB.cdc("A.", "") + "\n            return a\n        }\n    }\n")
	for i := range p.res {
		sb.WriteString(p.resource(i))
	}
	sb.WriteString("    access(all) fun run() {\n        A.emitAll()\n")
	for _, e := range p.emitsB {
		sb.WriteString("        " + e.cdc("A.", "") + "\n")
	}
	sb.WriteString("        let s = S()\n        s.f(1)\n")
	for _, st := range p.runStmts {
		sb.WriteString("        " + st + "\n")
	}
	sb.WriteString("    }\n}\n")
	return sb.String()
}

const script = "import B from 0x2\naccess(all) fun main() { B.run() }\n"

// newValue: a value for a field of type t (boxed as the assignment / constructor does)
func (g *gen) fieldValue(t *Ty) *Val {
	e := g.raw(t, 1)
	v := boxTo(e, t)
	v.Expr = strings.ReplaceAll(e.Expr, "§", "A.")
	return v
}

func (p *program) makeRes(decl int, varName string, nestedVars []string, nested []*RVal) (*RVal, string) {
	g := p.g
	r := p.res[decl]
	rv := &RVal{Decl: decl, Nested: nested}
	var as []string
	for k, nv := range nestedVars {
		as = append(as, fmt.Sprintf("n%d: <- %s", k, nv))
	}
	for _, f := range r.Fields {
		v := g.fieldValue(f.T)
		rv.Fields = append(rv.Fields, v)
		as = append(as, f.Name+": "+v.Expr)
	}
	return rv, fmt.Sprintf("let %s <- create %s(%s)", varName, r.Name, strings.Join(as, ", "))
}

// mutate: change some fields after construction (through `path`), so that values captured at
// construction time would be stale at destruction
func (p *program) mutate(rv *RVal, path string) []string {
	var out []string
	r := p.res[rv.Decl]
	for i, f := range r.Fields {
		if p.g.r.Chance(1, 2) {
			v := p.g.fieldValue(f.T)
			rv.Fields[i] = v
			out = append(out, fmt.Sprintf("%s.set_%s(%s)", path, f.Name, v.Expr))
		}
	}
	return out
}

func (g *gen) program(force, structCond bool) *program {
	p := &program{g: g}
	// structs (fields of simple types)
	g.structs = nil
	ns := 1 + g.r.Intn(2)
	for i := 0; i < ns; i++ {
		var fts []*Ty
		nf := 1 + g.r.Intn(3)
		for j := 0; j < nf; j++ {
			t := g.primTy()
			if g.r.Chance(1, 3) {
				t = &Ty{K: "opt", Elem: t}
			}
			fts = append(fts, t)
		}
		g.structs = append(g.structs, fts)
	}
	for i := 0; i < 2+g.r.Intn(2); i++ {
		p.evA = append(p.evA, g.event("A", addrA, fmt.Sprintf("E%d", i), 2))
	}
	for i := 0; i < 2+g.r.Intn(2); i++ {
		p.evB = append(p.evB, g.event("B", addrB, fmt.Sprintf("F%d", i), 2))
	}
	for _, d := range p.evA {
		p.emitsA = append(p.emitsA, g.emitOf(d))
		if g.r.Chance(1, 3) {
			p.emitsA = append(p.emitsA, g.emitOf(d))
		}
	}
	for _, d := range p.evB {
		p.emitsB = append(p.emitsB, g.emitOf(d))
	}
	var plain []*EvDecl
	for _, d := range p.evA {
		if !d.hasStruct() || structCond {
			plain = append(plain, d)
		}
	}
	if len(plain) == 0 || (structCond && !plain[0].hasStruct()) {
		d := &EvDecl{ID: "A." + addrA + ".A.EC", Name: "EC", Params: []Param{{"p0", &Ty{K: "opt", Elem: &Ty{K: "num", Name: "Int"}}}}}
		if structCond {
			d.Params = append(d.Params, Param{"p1", &Ty{K: "struct", Struct: 0}})
		}
		p.evA = append(p.evA, d)
		plain = []*EvDecl{d}
	}
	p.condA = [2]*Emit{g.emitOf(plain[0]), g.emitOf(lib.Pick(g.r, plain))}
	p.condB = [2]*Emit{g.emitOf(lib.Pick(g.r, p.evB)), g.emitOf(lib.Pick(g.r, p.evB))}
	p.bodyB = g.emitOf(lib.Pick(g.r, p.evB))
	// resources
	if force || g.r.Chance(2, 3) {
		n := 1 + g.r.Intn(2)
		for i := 0; i < n; i++ {
			p.ri = append(p.ri, Field{Name: fmt.Sprintf("y%d", i), T: g.fieldTy()})
		}
		p.riEvent = &DEvent{ID: "A." + addrA + ".A.RI.ResourceDestroyed", Params: g.defaultParams(p.ri, 0, nil, false)}
	}
	r0 := &ResDecl{Name: "R0"}
	r0.Fields = append(r0.Fields, p.ri...)
	for i := 0; i < 1+g.r.Intn(3); i++ {
		r0.Fields = append(r0.Fields, Field{Name: fmt.Sprintf("x%d", i), T: g.fieldTy()})
	}
	if p.ri != nil {
		r0.Inherit = p.riEvent
	}
	if force || g.r.Chance(4, 5) {
		r0.Own = &DEvent{ID: "A." + addrB + ".B.R0.ResourceDestroyed", Params: g.defaultParams(r0.Fields, 0, nil, force)}
	}
	r1 := &ResDecl{Name: "R1", Nested: []int{0}}
	for i := 0; i < 1+g.r.Intn(2); i++ {
		r1.Fields = append(r1.Fields, Field{Name: fmt.Sprintf("z%d", i), T: g.fieldTy()})
	}
	if force || g.r.Chance(4, 5) {
		r1.Own = &DEvent{ID: "A." + addrB + ".B.R1.ResourceDestroyed", Params: g.defaultParams(r1.Fields, 0, r0.Fields, false)}
	}
	r2 := &ResDecl{Name: "R2", Nested: []int{1}}
	for i := 0; i < 1+g.r.Intn(2); i++ {
		r2.Fields = append(r2.Fields, Field{Name: fmt.Sprintf("w%d", i), T: g.fieldTy()})
	}
	if g.r.Chance(4, 5) {
		r2.Own = &DEvent{ID: "A." + addrB + ".B.R2.ResourceDestroyed", Params: g.defaultParams(r2.Fields, 0, r1.Fields, false)}
	}
	p.res = []*ResDecl{r0, r1, r2}
	// B.run(): a plain R0; an R1 holding an R0; an R2 holding an R1 holding an R0
	a, stmt := p.makeRes(0, "ra", nil, nil)
	p.runStmts = append(p.runStmts, stmt)
	p.runStmts = append(p.runStmts, p.mutate(a, "ra")...)
	p.runStmts = append(p.runStmts, "destroy ra")
	p.rvals = append(p.rvals, a)

	b0, stmt := p.makeRes(0, "rb0", nil, nil)
	p.runStmts = append(p.runStmts, stmt)
	b1, stmt := p.makeRes(1, "rb1", []string{"rb0"}, []*RVal{b0})
	p.runStmts = append(p.runStmts, stmt)
	p.runStmts = append(p.runStmts, p.mutate(b0, "rb1.n0")...)
	p.runStmts = append(p.runStmts, p.mutate(b1, "rb1")...)
	p.runStmts = append(p.runStmts, "destroy rb1")
	p.rvals = append(p.rvals, b1)

	c0, stmt := p.makeRes(0, "rc0", nil, nil)
	p.runStmts = append(p.runStmts, stmt)
	c1, stmt := p.makeRes(1, "rc1", []string{"rc0"}, []*RVal{c0})
	p.runStmts = append(p.runStmts, stmt)
	c2, stmt := p.makeRes(2, "rc2", []string{"rc1"}, []*RVal{c1})
	p.runStmts = append(p.runStmts, stmt)
	p.runStmts = append(p.runStmts, p.mutate(c0, "rc2.n0.n0")...)
	p.runStmts = append(p.runStmts, p.mutate(c1, "rc2.n0")...)
	p.runStmts = append(p.runStmts, p.mutate(c2, "rc2")...)
	p.runStmts = append(p.runStmts, "destroy rc2")
	p.rvals = append(p.rvals, c2)
	return p
}

func (p *program) emitsInOrder() []*Emit {
	var out []*Emit
	out = append(out, p.emitsA...)
	out = append(out, p.emitsB...)
	out = append(out, p.condA[0], p.condB[0], p.bodyB, p.condB[1], p.condA[1])
	return out
}

func (p *program) coqSteps() string {
	var parts []string
	for _, e := range p.emitsInOrder() {
		parts = append(parts, e.coq())
	}
	var rds []string
	for _, r := range p.res {
		rds = append(rds, r.coqDecl())
	}
	R := "[" + strings.Join(rds, "; ") + "]"
	for _, rv := range p.rvals {
		parts = append(parts, "StDestroy "+R+" "+rv.coq())
	}
	return "[" + strings.Join(parts, ";\n  ") + "]"
}

func (p *program) coqStructs() string {
	var parts []string
	for _, fts := range p.g.structs {
		var ts []string
		for _, t := range fts {
			ts = append(ts, t.coq())
		}
		parts = append(parts, "["+strings.Join(ts, "; ")+"]")
	}
	return "[" + strings.Join(parts, "; ") + "]"
}

// expectedIDs: the sequence of event type IDs the host must receive.
func (p *program) expectedIDs() []string {
	var ids []string
	for _, e := range p.emitsInOrder() {
		ids = append(ids, e.Decl.ID)
	}
	var walk func(rv *RVal)
	walk = func(rv *RVal) {
		for _, n := range rv.Nested {
			walk(n)
		}
		r := p.res[rv.Decl]
		// constructor order: own, inherited; emitted last-in first-out
		if r.Inherit != nil {
			ids = append(ids, r.Inherit.ID)
		}
		if r.Own != nil {
			ids = append(ids, r.Own.ID)
		}
	}
	for _, rv := range p.rvals {
		walk(rv)
	}
	return ids
}

// declared: parameter names and types of every event type of the program, by type ID.
func (p *program) declared() map[string][]Param {
	m := map[string][]Param{}
	for _, d := range append(append([]*EvDecl{}, p.evA...), p.evB...) {
		m[d.ID] = d.Params
	}
	add := func(d *DEvent) {
		if d == nil {
			return
		}
		var ps []Param
		for _, q := range d.Params {
			ps = append(ps, Param{q.Name, q.T})
		}
		m[d.ID] = ps
	}
	add(p.riEvent)
	for _, r := range p.res {
		add(r.Own)
	}
	return m
}

func c48(sum *lib.Summary) {
	rng := lib.NewRng(*seed)
	g := &gen{r: rng}
	cw := &lib.CaseWriter{
		Dir: *dir, Prefix: "cases_C48",
		Header:   "From CV Require Import C48.Cases.",
		ElemType: "struct_env * list step * list event * list event",
		CheckFn:  "check_case",
		PerFile:  12,
	}
	nprog := 60
	if *tier == "thorough" {
		nprog = 600
	}
	sum.Rule = "per generated program (contracts A and B deployed, script calling B.run(), interpreter and VM): emit statements with " +
		"arguments of every exportable parameter type (all number kinds and abstract number types, String, Character, Bool, Address, paths, " +
		"Type, optionals, arrays, dictionaries, structs) whose static types are subtypes of the parameter types (boxing, covariance), emit " +
		"conditions inherited from an interface of the imported contract and own ones, default destruction events of nested resources with " +
		"literal / field / nested-field / dictionary-access default arguments evaluated after field mutation. Each received event is checked " +
		"directly (type ID, field names/order/count, declared field types, every value conforms to its declared type) and against the Coq model. " +
		"non-trivial = received event with at least one field whose argument needed conversion (static type differs from the parameter type) or a " +
		"default destruction event; distinct = distinct (type id, field values)"
	distinct := map[string]bool{}
	corpus(sum)
	nref := 250
	if *tier == "thorough" {
		nref = 3000
	}
	refStage(sum, &gen{r: lib.NewRng(*seed ^ 0x5eed)}, nref)
	for pi := 0; pi < nprog; pi++ {
		p := g.program(pi == 0, pi == 1)
		srcA, srcB := p.contractA(), p.contractB()
		var obs [2][]ObsEvent
		ok := true
		for ei, vm := range []bool{false, true} {
			engine := map[bool]string{false: "interpreter", true: "vm"}[vm]
			h := lib.NewHost()
			oa := h.Deploy(common.MustBytesToAddress([]byte{1}), "A", srcA, vm)
			ob := h.Deploy(common.MustBytesToAddress([]byte{2}), "B", srcB, vm)
			if vm && oa.Class == "" && ob.Class == lib.EInternal && ob.Err != nil &&
				strings.Contains(ob.Err.Error(), "cannot find global declaration") && p.condHasStruct() {
				// the interpreter deploys and runs the same program: see obs[0]
				sum.Fail("c48:vm:inherited-emit-condition-type-unresolved",
					fmt.Sprintf("vm: contract B (implements A.SI whose emit condition constructs a struct of A) cannot be deployed: %v", firstLine(ob.Err.Error())),
					map[string]any{"engine": "vm", "contract_A": srcA, "contract_B": srcB})
				ok = false
				break
			}
			if oa.Class != "" || ob.Class != "" {
				sum.Count("deploy rejected " + oa.Class + "/" + ob.Class)
				if *dump {
					fmt.Println(srcA, srcB, oa.Err, ob.Err)
				}
				ok = false
				break
			}
			out := h.RunScript(script, nil, vm)
			sum.Evaluations++
			replay := map[string]any{"engine": engine, "contract_A": srcA, "contract_B": srcB, "script": script}
			if out.Class != "" || out.Panic != nil {
				sum.Fail("c48:"+engine+":run-failed", fmt.Sprintf("%s: B.run() failed with %s: %v %v", engine, out.Class, out.Err, out.Panic), replay)
				ok = false
				break
			}
			want := p.expectedIDs()
			var got []string
			for _, e := range out.Events {
				got = append(got, e.EventType.ID())
			}
			if strings.Join(got, " ") != strings.Join(want, " ") {
				sum.Fail("c48:"+engine+":event-sequence",
					fmt.Sprintf("%s: received event types %v, required %v (each emit exactly once, nested destruction events first, declared type IDs)", engine, got, want), replay)
			}
			decl := p.declared()
			for _, e := range out.Events {
				o, err := observeEvent(e)
				if err != nil {
					sum.Fail("c48:"+engine+":harness", "cannot project event "+e.String()+": "+err.Error(), replay)
					ok = false
					break
				}
				obs[ei] = append(obs[ei], o)
				ps, known := decl[o.TypeID]
				if !known {
					continue // reported by the sequence check
				}
				isDestroy := strings.HasSuffix(o.TypeID, ".ResourceDestroyed")
				var names []string
				for _, q := range ps {
					names = append(names, q.Name)
				}
				replay["event"] = e.String()
				if strings.Join(names, ",") != strings.Join(o.Names, ",") {
					sum.Fail("c48:"+engine+":field-names",
						fmt.Sprintf("%s: event %s has fields %v, declared %v", engine, o.TypeID, o.Names, names), replay)
					continue
				}
				ftypes := e.EventType.FieldsMappedByName()
				fvals := cadenceFields(e)
				for i, q := range ps {
					dt := ftypes[q.Name]
					if toTy(dt).coq() != q.T.coq() {
						sum.Fail("c48:"+engine+":field-type",
							fmt.Sprintf("%s: event %s field %s carries type %s, declared %s", engine, o.TypeID, q.Name, dt.ID(), q.T.cdc("A.")), replay)
						continue
					}
					if r := conforms(fvals[q.Name], dt); r != "" {
						key := "c48:" + engine + ":value-nonconforming"
						if isDestroy && strings.Contains(r, "is not boxed") {
							key = "c48:" + engine + ":default-destroy-arg-not-boxed"
						}
						sum.Fail(key, fmt.Sprintf("%s: event %s field %s (#%d): %s", engine, o.TypeID, q.Name, i, r), replay)
					}
				}
				k := o.coq()
				if !distinct[k] && (isDestroy || needsConversion(p, o.TypeID)) {
					distinct[k] = true
					sum.DistinctNontrivial++
				}
				if isDestroy {
					sum.Count("destroy events")
				} else {
					sum.Count("emit events")
				}
			}
			if !ok {
				break
			}
		}
		if !ok {
			continue
		}
		cw.Add(fmt.Sprintf("(%s,\n %s,\n %s,\n %s)", p.coqStructs(), p.coqSteps(), coqEvents(obs[0]), coqEvents(obs[1])),
			map[string]any{"contract_A": srcA, "contract_B": srcB, "script": script,
				"interpreter_events": eventStrings(obs[0]), "vm_events": eventStrings(obs[1])})
		sum.Sample(map[string]any{"contract_B": srcB, "events": eventStrings(obs[0])})
		for _, e := range p.emitsInOrder() {
			for _, prm := range e.Decl.Params {
				sum.Count("param " + prm.T.K)
			}
		}
	}
	cw.Close()
	sum.CaseFiles = cw.Files
}

func eventStrings(es []ObsEvent) []string {
	var out []string
	for _, e := range es {
		out = append(out, e.Raw.String())
	}
	return out
}

func needsConversion(p *program, id string) bool {
	for _, e := range p.emitsInOrder() {
		if e.Decl.ID != id {
			continue
		}
		for i, a := range e.Args {
			if typeOf(a).coq() != e.Decl.Params[i].T.coq() {
				return true
			}
		}
	}
	return false
}

func firstLine(s string) string {
	for _, l := range strings.Split(s, "\n") {
		if strings.HasPrefix(l, "error:") {
			return l
		}
	}
	return s
}

func (p *program) condHasStruct() bool {
	return p.condA[0].Decl.hasStruct() || p.condA[1].Decl.hasStruct()
}
