package main

import (
	"fmt"
	"math/big"
	"strings"

	"cvh/lib"
)

type gen struct {
	r       *lib.Rng
	structs [][]*Ty // field types of struct P_i (declared in contract A)
}

var keyKinds = []string{"String", "Int", "UInt8", "Int64", "Bool", "Address"}

func (g *gen) numTy() *Ty  { return &Ty{K: "num", Name: lib.Pick(g.r, numKinds)} }
func (g *gen) pathTy() *Ty { return &Ty{K: "path", Name: lib.Pick(g.r, []string{"StoragePath", "PublicPath", "CapabilityPath", "Path"})} }

func (g *gen) primTy() *Ty {
	switch g.r.Intn(12) {
	case 0, 1, 2, 3:
		return g.numTy()
	case 4:
		return &Ty{K: "abs", Name: lib.Pick(g.r, absKinds)}
	case 5:
		return &Ty{K: "bool"}
	case 6, 7:
		return &Ty{K: "string"}
	case 8:
		return &Ty{K: "char"}
	case 9:
		return &Ty{K: "address"}
	case 10:
		return g.pathTy()
	default:
		return &Ty{K: "meta"}
	}
}

func (g *gen) keyTy() *Ty {
	k := lib.Pick(g.r, keyKinds)
	switch k {
	case "String":
		return &Ty{K: "string"}
	case "Bool":
		return &Ty{K: "bool"}
	case "Address":
		return &Ty{K: "address"}
	}
	return &Ty{K: "num", Name: k}
}

// ty: a random exportable parameter type.
func (g *gen) ty(depth int) *Ty {
	if depth <= 0 || g.r.Chance(2, 5) {
		return g.primTy()
	}
	switch g.r.Intn(8) {
	case 0, 1, 2:
		return &Ty{K: "opt", Elem: g.ty(depth - 1)}
	case 3, 4:
		return &Ty{K: "varr", Elem: g.ty(depth - 1)}
	case 5:
		return &Ty{K: "carr", N: g.r.Intn(3), Elem: g.ty(depth - 1)}
	case 6:
		return &Ty{K: "dict", Key: g.keyTy(), Elem: g.ty(depth - 1)}
	default:
		if len(g.structs) > 0 {
			return &Ty{K: "struct", Struct: g.r.Intn(len(g.structs))}
		}
		return g.primTy()
	}
}

// subTy: a static type that is a subtype of t (used for the static types of arguments and of
// container literals, so that implicit conversions and covariance are exercised).
func (g *gen) subTy(t *Ty) *Ty {
	if g.r.Chance(1, 2) {
		return t
	}
	switch t.K {
	case "opt":
		if g.r.Bool() {
			return g.subTy(t.Elem) // unboxed argument for an optional parameter
		}
		return &Ty{K: "opt", Elem: g.subTy(t.Elem)}
	case "abs":
		var ks []string
		for _, k := range numKinds {
			if numIn(k, t.Name) {
				ks = append(ks, k)
			}
		}
		return &Ty{K: "num", Name: lib.Pick(g.r, ks)}
	case "path":
		switch t.Name {
		case "Path":
			return &Ty{K: "path", Name: lib.Pick(g.r, []string{"StoragePath", "PublicPath", "CapabilityPath"})}
		case "CapabilityPath":
			return &Ty{K: "path", Name: "PublicPath"}
		}
	case "varr":
		return &Ty{K: "varr", Elem: g.subTy(t.Elem)}
	case "carr":
		return &Ty{K: "carr", N: t.N, Elem: g.subTy(t.Elem)}
	case "dict":
		return &Ty{K: "dict", Key: t.Key, Elem: g.subTy(t.Elem)}
	}
	return t
}

func (g *gen) ident() string {
	n := 1 + g.r.Intn(4)
	b := make([]byte, n)
	for i := range b {
		b[i] = byte('a' + g.r.Intn(26))
	}
	return string(b)
}

func (g *gen) numVal(k string) *big.Int {
	lo, hi := numRange(k)
	var cands []*big.Int
	cands = append(cands, big.NewInt(0), big.NewInt(1), big.NewInt(int64(g.r.Intn(200))))
	if lo != nil {
		cands = append(cands, lo, new(big.Int).Add(lo, big.NewInt(1)))
	} else {
		cands = append(cands, big.NewInt(-1), new(big.Int).Neg(g.r.BigBits(90)))
	}
	if hi != nil {
		cands = append(cands, hi, new(big.Int).Sub(hi, big.NewInt(1)))
	} else {
		cands = append(cands, g.r.BigBits(100))
	}
	if lo != nil && lo.Sign() < 0 {
		cands = append(cands, big.NewInt(-1), big.NewInt(-int64(g.r.Intn(200))))
	}
	z := lib.Pick(g.r, cands)
	if lo != nil && z.Cmp(lo) < 0 {
		z = lo
	}
	if hi != nil && z.Cmp(hi) > 0 {
		z = hi
	}
	return z
}

func numLit(k string, z *big.Int) string {
	if k == "Fix64" || k == "UFix64" {
		a := new(big.Int).Abs(z)
		q, r := new(big.Int).QuoRem(a, big.NewInt(100000000), new(big.Int))
		s := fmt.Sprintf("%s.%08d", q, r.Int64())
		if z.Sign() < 0 {
			s = "-" + s
		}
		return s
	}
	return z.String()
}

// raw: a well-formed value v whose runtime type is a subtype of t, with Expr an expression whose
// static type is a subtype of t. "§" stands for the struct name prefix ("" in contract A, "A." in B).
func (g *gen) raw(t *Ty, depth int) *Val {
	s := g.subTy(t)
	v := g.exact(s, depth)
	return v
}

// exact: a value with has_type v s, and an expression of static type s.
func (g *gen) exact(s *Ty, depth int) *Val {
	switch s.K {
	case "num":
		z := g.numVal(s.Name)
		return &Val{K: "num", Num: s.Name, Z: z, Expr: fmt.Sprintf("(%s as %s)", numLit(s.Name, z), s.Name)}
	case "abs":
		var ks []string
		for _, k := range numKinds {
			if numIn(k, s.Name) {
				ks = append(ks, k)
			}
		}
		k := lib.Pick(g.r, ks)
		z := g.numVal(k)
		return &Val{K: "num", Num: k, Z: z, Expr: fmt.Sprintf("((%s as %s) as %s)", numLit(k, z), k, s.Name)}
	case "bool":
		b := g.r.Bool()
		return &Val{K: "bool", B: b, Expr: fmt.Sprint(b)}
	case "string":
		x := g.ident()
		if g.r.Chance(1, 6) {
			x = ""
		}
		return &Val{K: "str", S: x, Expr: fmt.Sprintf("%q", x)}
	case "char":
		x := g.ident()[:1]
		return &Val{K: "char", S: x, Expr: fmt.Sprintf("(%q as Character)", x)}
	case "address":
		z := new(big.Int).SetUint64(g.r.U64() >> uint(g.r.Intn(64)))
		return &Val{K: "addr", Z: z, Expr: fmt.Sprintf("(0x%x as Address)", z)}
	case "path":
		dom := map[string]string{"StoragePath": "storage", "PublicPath": "public", "PrivatePath": "private"}[s.Name]
		if s.Name == "CapabilityPath" {
			dom = "public"
		}
		if s.Name == "Path" {
			dom = lib.Pick(g.r, []string{"storage", "public"})
		}
		id := g.ident()
		return &Val{K: "path", Dom: dom, S: id, Expr: fmt.Sprintf("(/%s/%s as %s)", dom, id, s.Name)}
	case "meta":
		id := lib.Pick(g.r, []string{"Int", "String", "[Int8]", "Address", "{String: UInt64}", "Bool?"})
		tid := map[string]string{"{String: UInt64}": "{String:UInt64}", "Bool?": "(Bool)?"}[id]
		if tid == "" {
			tid = id
		}
		return &Val{K: "meta", S: tid, Expr: "Type<" + id + ">()"}
	case "never":
		panic("no value of Never")
	case "opt":
		if s.Elem.K == "never" || g.r.Chance(1, 3) {
			return &Val{K: "nil", Expr: "(nil as " + s.cdc("§") + ")"}
		}
		in := g.exact(s.Elem, depth)
		return &Val{K: "some", In: in, Expr: "(" + in.Expr + " as " + s.cdc("§") + ")"}
	case "varr", "carr":
		n := g.r.Intn(3)
		if s.K == "carr" {
			n = s.N
		}
		out := &Val{K: "arr", T: s}
		var es []string
		for i := 0; i < n; i++ {
			e := g.raw(s.Elem, depth-1)
			out.L = append(out.L, boxTo(e, s.Elem))
			es = append(es, e.Expr)
		}
		out.Expr = "([" + strings.Join(es, ", ") + "] as " + s.cdc("§") + ")"
		return out
	case "dict":
		n := g.r.Intn(3)
		out := &Val{K: "dict", T: s}
		seen := map[string]bool{}
		var es []string
		for i := 0; i < n; i++ {
			k := g.exact(s.Key, 0)
			if seen[k.coq()] {
				continue
			}
			seen[k.coq()] = true
			e := g.raw(s.Elem, depth-1)
			out.KV = append(out.KV, [2]*Val{k, boxTo(e, s.Elem)})
			es = append(es, k.Expr+": "+e.Expr)
		}
		if len(es) == 0 {
			out.Expr = "({} as " + s.cdc("§") + ")"
		} else {
			out.Expr = "({" + strings.Join(es, ", ") + "} as " + s.cdc("§") + ")"
		}
		return out
	case "struct":
		fts := g.structs[s.Struct]
		out := &Val{K: "struct", ID: s.Struct}
		var es []string
		for i, ft := range fts {
			e := g.raw(ft, 0)
			out.L = append(out.L, boxTo(e, ft))
			es = append(es, fmt.Sprintf("f%d: %s", i, e.Expr))
		}
		out.Expr = fmt.Sprintf("§P%d(%s)", s.Struct, strings.Join(es, ", "))
		return out
	}
	panic("exact " + s.K)
}

// ---------------------------------------------------------------- program

type Param struct {
	Name string
	T    *Ty
}

type EvDecl struct {
	ID     string // full type ID expected at the host
	Name   string // identifier in its contract
	Params []Param
}

func (d *EvDecl) coq() string {
	ps := make([]string, len(d.Params))
	for i, p := range d.Params {
		ps[i] = "(" + coqName(p.Name) + ", " + p.T.coq() + ")"
	}
	return "(EventDecl " + coqName(d.ID) + " [" + strings.Join(ps, "; ") + "])"
}

func (d *EvDecl) cdc(prefix string) string {
	ps := make([]string, len(d.Params))
	for i, p := range d.Params {
		ps[i] = p.Name + ": " + p.T.cdc(prefix)
	}
	return "access(all) event " + d.Name + "(" + strings.Join(ps, ", ") + ")"
}

// Emit: one emit statement with its argument values.
type Emit struct {
	Decl *EvDecl
	Args []*Val
}

func (e *Emit) cdc(prefix, evPrefix string) string {
	as := make([]string, len(e.Args))
	for i, a := range e.Args {
		as[i] = e.Decl.Params[i].Name + ": " + strings.ReplaceAll(a.Expr, "§", prefix)
	}
	return "emit " + evPrefix + e.Decl.Name + "(" + strings.Join(as, ", ") + ")"
}

func (e *Emit) coq() string {
	return "StEmit " + e.Decl.coq() + " " + coqVals(e.Args)
}

func (g *gen) event(contract, addr, name string, depth int) *EvDecl {
	d := &EvDecl{ID: fmt.Sprintf("A.%s.%s.%s", addr, contract, name), Name: name}
	n := 1 + g.r.Intn(4)
	if g.r.Chance(1, 10) {
		n = 0
	}
	for i := 0; i < n; i++ {
		d.Params = append(d.Params, Param{Name: fmt.Sprintf("p%d", i), T: g.ty(depth)})
	}
	return d
}

func (g *gen) emitOf(d *EvDecl) *Emit {
	e := &Emit{Decl: d}
	for _, p := range d.Params {
		if p.T.K == "opt" && g.r.Chance(1, 2) {
			e.Args = append(e.Args, g.optionalForm(p.T))
			continue
		}
		e.Args = append(e.Args, g.raw(p.T, 2))
	}
	return e
}

// optionalForm: an argument for a parameter of optional type t = U? whose STATIC type is already t
// while the run-time value of the expression may be unboxed or boxed depending on how the engine
// evaluates it: conditional expressions with one non-optional and one nil branch, nil-coalescing,
// dictionary lookup (optional result), `as?` casts, function results of optional type, force-unwrap.
// In every form the event must carry box(inner, t); the model is given the inner value.
// "§" is the prefix of contract A's declarations (yes()/no() are view functions of A).
func (g *gen) optionalForm(t *Ty) *Val {
	u := t.Elem
	in := g.exact(u, 1)
	ts, us := t.cdc("§"), u.cdc("§")
	out := *in
	var forms []string
	if u.K != "opt" {
		forms = append(forms,
			"(A.yes() ? "+in.Expr+" : nil)",
			"(A.no() ? nil : "+in.Expr+")",
			"(A.no() ? (nil as "+ts+") : "+in.Expr+")",
			"(A.yes() ? "+in.Expr+" : (nil as "+ts+"))",
			"(("+in.Expr+" as "+ts+") ?? "+in.Expr+")",
		)
	}
	forms = append(forms,
		"((nil as ("+ts+")?) ?? (A.yes() ? ("+in.Expr+" as "+ts+") : nil))",
		"(({\"k\": "+in.Expr+"} as {String: "+us+"})[\"k\"])",
		"("+in.Expr+" as? "+us+")",
	)
	if in.K != "nil" {
		forms = append(forms, "(("+in.Expr+" as ("+ts+")?)!)")
	}
	if u.K == "num" && u.Name == "Int" {
		forms = append(forms, "A.optInt("+in.Expr+")", "A.optInt("+in.Expr+")")
	}
	if u.K == "string" {
		forms = append(forms, "A.optString("+in.Expr+")", "A.optString("+in.Expr+")")
	}
	switch g.r.Intn(6) {
	case 0: // absent key / failing branch: nil
		nilForms := []string{
			"(({\"k\": " + in.Expr + "} as {String: " + us + "})[\"z\"])",
			"(A.no() ? (" + in.Expr + " as " + ts + ") : nil)",
		}
		return &Val{K: "nil", Expr: lib.Pick(g.r, nilForms)}
	}
	out.Expr = lib.Pick(g.r, forms)
	return &out
}

// ---- resources with default destruction events

type DExp struct {
	K    string // lit field nested dict
	V    *Val
	I, J int
	Key  *Val
	Src  string // Cadence expression
}

func (e *DExp) coq() string {
	switch e.K {
	case "lit":
		return "(DLit " + e.V.coq() + ")"
	case "field":
		return fmt.Sprintf("(DField %d%%nat)", e.I)
	case "nested":
		return fmt.Sprintf("(DNested %d%%nat %d%%nat)", e.I, e.J)
	case "dict":
		return fmt.Sprintf("(DDictGet %d%%nat %s)", e.I, e.Key.coq())
	}
	panic(e.K)
}

type DParam struct {
	Name string
	T    *Ty
	E    *DExp
}

type DEvent struct {
	ID     string
	Params []DParam
}

func (d *DEvent) coq() string {
	ps := make([]string, len(d.Params))
	for i, p := range d.Params {
		ps[i] = "(" + coqName(p.Name) + ", " + p.T.coq() + ", " + p.E.coq() + ")"
	}
	return "(DestroyEvent " + coqName(d.ID) + " [" + strings.Join(ps, "; ") + "])"
}

func (d *DEvent) cdc() string {
	ps := make([]string, len(d.Params))
	for i, p := range d.Params {
		ps[i] = p.Name + ": " + p.T.cdc("") + " = " + p.E.Src
	}
	return "access(all) event ResourceDestroyed(" + strings.Join(ps, ", ") + ")"
}

type Field struct {
	Name string
	T    *Ty
}

// simple field types of resources (default-event parameters must be primitive)
func (g *gen) fieldTy() *Ty {
	switch g.r.Intn(10) {
	case 0, 1:
		return &Ty{K: "num", Name: "Int"}
	case 2:
		return g.numTy()
	case 3:
		return &Ty{K: "string"}
	case 4:
		return &Ty{K: "bool"}
	case 5:
		return &Ty{K: "opt", Elem: &Ty{K: "num", Name: lib.Pick(g.r, []string{"Int", "UInt8", "Int64"})}}
	case 6:
		return &Ty{K: "opt", Elem: &Ty{K: "string"}}
	case 7:
		return &Ty{K: "address"}
	case 8:
		return &Ty{K: "path", Name: lib.Pick(g.r, []string{"StoragePath", "PublicPath"})}
	default:
		return &Ty{K: "dict", Key: &Ty{K: "string"}, Elem: &Ty{K: "num", Name: lib.Pick(g.r, []string{"Int", "UInt16"})}}
	}
}

// superTy: a primitive parameter type that a value of field type t may be passed to.
func (g *gen) superTy(t *Ty) *Ty {
	switch g.r.Intn(4) {
	case 0:
		if t.K != "opt" {
			return &Ty{K: "opt", Elem: t}
		}
	case 1:
		if t.K == "num" {
			var as []string
			for _, a := range absKinds {
				if numIn(t.Name, a) {
					as = append(as, a)
				}
			}
			return &Ty{K: "abs", Name: lib.Pick(g.r, as)}
		}
		if t.K == "path" {
			return &Ty{K: "path", Name: "Path"}
		}
	case 2:
		if t.K != "opt" {
			return &Ty{K: "opt", Elem: &Ty{K: "opt", Elem: t}}
		}
	}
	return t
}

// literal default argument for a parameter of primitive type t (only literal expression kinds
// are allowed: integer, fixed-point, string, bool, nil, path)
func (g *gen) litFor(t *Ty) (*DExp, bool) {
	base := t
	for base.K == "opt" {
		if g.r.Chance(1, 5) {
			return &DExp{K: "lit", V: &Val{K: "nil"}, Src: "nil"}, true
		}
		base = base.Elem
	}
	switch base.K {
	case "num":
		lo, _ := numRange(base.Name)
		z := g.numVal(base.Name)
		if lo != nil && lo.Sign() == 0 && z.Sign() < 0 {
			z = big.NewInt(3)
		}
		return &DExp{K: "lit", V: &Val{K: "num", Num: base.Name, Z: z}, Src: numLit(base.Name, z)}, true
	case "string":
		s := g.ident()
		return &DExp{K: "lit", V: &Val{K: "str", S: s}, Src: fmt.Sprintf("%q", s)}, true
	case "bool":
		b := g.r.Bool()
		return &DExp{K: "lit", V: &Val{K: "bool", B: b}, Src: fmt.Sprint(b)}, true
	case "path":
		dom := map[string]string{"StoragePath": "storage", "PublicPath": "public", "CapabilityPath": "public", "Path": "storage"}[base.Name]
		id := g.ident()
		return &DExp{K: "lit", V: &Val{K: "path", Dom: dom, S: id}, Src: "/" + dom + "/" + id}, true
	}
	return nil, false
}

type ResDecl struct {
	Name    string
	Fields  []Field // all fields, inherited interface fields first
	Nested  []int   // nested resource decl indices (fields n0, n1, ...)
	Own     *DEvent
	Inherit *DEvent // ResourceDestroyed of the resource interface A.RI (nil if not conforming)
}

func (r *ResDecl) coqDecl() string {
	var ds []string
	if r.Own != nil {
		ds = append(ds, r.Own.coq())
	}
	if r.Inherit != nil {
		ds = append(ds, r.Inherit.coq())
	}
	return "[" + strings.Join(ds, "; ") + "]"
}

type RVal struct {
	Decl   int
	Fields []*Val
	Nested []*RVal
}

func (r *RVal) coq() string {
	ns := make([]string, len(r.Nested))
	for i, n := range r.Nested {
		ns[i] = n.coq()
	}
	return fmt.Sprintf("(RVal %d%%nat %s [%s])", r.Decl, coqVals(r.Fields), strings.Join(ns, "; "))
}

// defaultParams: parameters of a ResourceDestroyed event over the given fields (indices offset by
// `off` in the resource's field list); nestedFields: fields of nested resource 0 (nil if none).
func (g *gen) defaultParams(fields []Field, off int, nestedFields []Field, force bool) []DParam {
	var ps []DParam
	n := 1 + g.r.Intn(4)
	for i := 0; i < n; i++ {
		name := fmt.Sprintf("q%d", i)
		switch k := g.r.Intn(5); {
		case force && i == 0:
			// the unboxed-literal shape on every run: c: Int? = 5
			ps = append(ps, DParam{Name: name, T: &Ty{K: "opt", Elem: &Ty{K: "num", Name: "Int"}},
				E: &DExp{K: "lit", V: &Val{K: "num", Num: "Int", Z: big.NewInt(5)}, Src: "5"}})
		case k <= 1 && len(fields) > 0:
			fi := g.r.Intn(len(fields))
			f := fields[fi]
			if f.T.K == "dict" {
				key := g.ident()
				if g.r.Bool() {
					key = "k"
				}
				ps = append(ps, DParam{Name: name, T: &Ty{K: "opt", Elem: f.T.Elem},
					E: &DExp{K: "dict", I: off + fi, Key: &Val{K: "str", S: key}, Src: fmt.Sprintf("self.%s[%q]", f.Name, key)}})
			} else {
				ps = append(ps, DParam{Name: name, T: g.superTy(f.T), E: &DExp{K: "field", I: off + fi, Src: "self." + f.Name}})
			}
		case k == 2 && len(nestedFields) > 0:
			fj := g.r.Intn(len(nestedFields))
			f := nestedFields[fj]
			if f.T.K == "dict" {
				continue
			}
			ps = append(ps, DParam{Name: name, T: g.superTy(f.T), E: &DExp{K: "nested", I: 0, J: fj, Src: "self.n0." + f.Name}})
		default:
			t := g.superTy(lib.Pick(g.r, []*Ty{{K: "num", Name: "Int"}, {K: "num", Name: "UInt8"}, {K: "num", Name: "Fix64"},
				{K: "string"}, {K: "bool"}, {K: "path", Name: "StoragePath"}, {K: "num", Name: "Int128"}}))
			if e, ok := g.litFor(t); ok {
				ps = append(ps, DParam{Name: name, T: t, E: e})
			}
		}
	}
	return ps
}

func tyHasStruct(t *Ty) bool {
	if t == nil {
		return false
	}
	return t.K == "struct" || tyHasStruct(t.Elem) || tyHasStruct(t.Key)
}

func (d *EvDecl) hasStruct() bool {
	for _, p := range d.Params {
		if tyHasStruct(p.T) {
			return true
		}
	}
	return false
}
