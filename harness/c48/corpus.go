package main

import (
	"fmt"

	"cvh/lib"

	"github.com/onflow/cadence"
	"github.com/onflow/cadence/common"
)

// Minimized past findings, run first on every run (both engines).

const corpusDestroy = `
access(all) resource R {
    access(all) var x: Int
    access(all) event ResourceDestroyed(c: Int? = 5, d: Int? = self.x)
    init() { self.x = 1 }
}
access(all) fun main() { let r <- create R(); destroy r }
`

const corpusA = `
access(all) contract A {
    access(all) struct P { view init() {} }
    access(all) event E(p: P)
    access(all) struct interface SI {
        access(all) fun f() { pre { emit E(p: P()) } }
    }
}
`

const corpusB = `
import A from 0x1
access(all) contract B {
    access(all) struct S: A.SI { access(all) fun f() {} }
    access(all) fun run() { S().f() }
}
`

func corpus(sum *lib.Summary) {
	for _, vm := range []bool{false, true} {
		engine := map[bool]string{false: "interpreter", true: "vm"}[vm]
		h := lib.NewHost()
		out := h.RunScript(corpusDestroy, nil, vm)
		sum.Evaluations++
		replay := map[string]any{"engine": engine, "script": corpusDestroy}
		if out.Class != "" || len(out.Events) != 1 {
			sum.Fail("c48:"+engine+":corpus-destroy", fmt.Sprintf("%s: corpus script failed: %v", engine, out.Err), replay)
		} else {
			e := out.Events[0]
			ft := e.EventType.FieldsMappedByName()
			for n, v := range cadence.FieldsMappedByName(e) {
				if r := conforms(v, ft[n]); r != "" {
					sum.Fail("c48:"+engine+":default-destroy-arg-not-boxed",
						fmt.Sprintf("%s: event %s field %s: %s", engine, e.EventType.ID(), n, r), replay)
				}
			}
		}
		h = lib.NewHost()
		oa := h.Deploy(common.MustBytesToAddress([]byte{1}), "A", corpusA, vm)
		ob := h.Deploy(common.MustBytesToAddress([]byte{2}), "B", corpusB, vm)
		sum.Evaluations++
		replay = map[string]any{"engine": engine, "contract_A": corpusA, "contract_B": corpusB}
		switch {
		case oa.Class == "" && ob.Class == "":
			o := h.RunScript("import B from 0x2\naccess(all) fun main() { B.run() }", nil, vm)
			if o.Class != "" || len(o.Events) != 1 || o.Events[0].EventType.ID() != "A.0000000000000001.A.E" {
				sum.Fail("c48:"+engine+":corpus-inherited-condition",
					fmt.Sprintf("%s: expected exactly the event A.0000000000000001.A.E, got %v (%v)", engine, o.Events, o.Err), replay)
			}
		case ob.Class == lib.EInternal:
			sum.Fail("c48:"+engine+":inherited-emit-condition-type-unresolved",
				fmt.Sprintf("%s: contract B cannot be deployed: %s", engine, firstLine(ob.Err.Error())), replay)
		default:
			sum.Fail("c48:"+engine+":corpus-inherited-condition", fmt.Sprintf("%s: deploy failed: %v %v", engine, oa.Err, ob.Err), replay)
		}
	}
}
