package main

import (
	"fmt"
	"regexp"
	"strings"

	"cvh/lib"

	"github.com/onflow/cadence"
)

// Reference stage: events with reference-typed parameters (&S, auth(E) &S, &S?, [&S], {String: &S},
// [&S?], &[Int], &{String: Int}, &Int). References are exported by value. The emitted values reuse the
// SAME reference value several times inside one event (two fields, array elements, nested), next to
// distinct references to the same referent and references to different referents. Every field must
// reach the host non-nil, conform to the declared parameter type (&T read as T) and equal the
// exported referent. (References are outside the Coq model; this stage is a direct oracle.)

type refVar struct {
	name string // Cadence variable
	want string // exported value, location-free rendering
}

type refParam struct {
	typ  string
	expr string
	want string
}

var locRe = regexp.MustCompile(`s\.[0-9a-f]{64}\.`)

func safeString(v cadence.Value) (s string, ok bool) {
	defer func() {
		if r := recover(); r != nil {
			s, ok = fmt.Sprintf("<unprintable: %v>", r), false
		}
	}()
	if v == nil {
		return "<nil>", false
	}
	return locRe.ReplaceAllString(v.String(), ""), true
}

func (g *gen) refScript() (string, [][]refParam) {
	r := g.r
	var sb strings.Builder
	sb.WriteString("access(all) entitlement E\n")
	sb.WriteString("access(all) struct S { access(all) let n: Int; access(all) let t: String\n  init(n: Int, t: String) { self.n = n; self.t = t } }\n")
	// referents and references
	nS := 2 + r.Intn(2)
	var body strings.Builder
	var plain, auth []refVar
	for i := 0; i < nS; i++ {
		n, t := r.Intn(100)-20, g.ident()
		want := fmt.Sprintf("S(n: %d, t: %q)", n, t)
		fmt.Fprintf(&body, "  let s%d = S(n: %d, t: %q)\n", i, n, t)
		// two distinct reference values to the same referent, and an authorized one
		fmt.Fprintf(&body, "  let r%da = &s%d as &S\n  let r%db = &s%d as &S\n  let r%de = &s%d as auth(E) &S\n", i, i, i, i, i, i)
		plain = append(plain, refVar{fmt.Sprintf("r%da", i), want}, refVar{fmt.Sprintf("r%db", i), want})
		auth = append(auth, refVar{fmt.Sprintf("r%de", i), want})
	}
	xs := []int{r.Intn(9), r.Intn(9) - 4}
	fmt.Fprintf(&body, "  let arr: [Int] = [%d, %d]\n  let ra = &arr as &[Int]\n", xs[0], xs[1])
	fmt.Fprintf(&body, "  let dict: {String: Int} = {\"k\": %d}\n  let rd = &dict as &{String: Int}\n", xs[0])
	fmt.Fprintf(&body, "  let num: Int = %d\n  let rn = &num as &Int\n", xs[1])
	arrWant := fmt.Sprintf("[%d, %d]", xs[0], xs[1])
	dictWant := fmt.Sprintf("{\"k\": %d}", xs[0])
	numWant := fmt.Sprint(xs[1])

	// pick a reference, strongly biased to reuse the previous pick (the same reference VALUE)
	var last *refVar
	pick := func() refVar {
		if last != nil && r.Chance(3, 5) {
			return *last
		}
		v := lib.Pick(r, plain)
		last = &v
		return v
	}
	param := func() refParam {
		switch r.Intn(11) {
		case 0, 1, 2:
			v := pick()
			return refParam{"&S", v.name, v.want}
		case 3:
			v := lib.Pick(r, auth)
			return refParam{"auth(E) &S", v.name, v.want}
		case 4:
			if r.Chance(1, 4) {
				return refParam{"&S?", "nil", "nil"}
			}
			v := pick()
			return refParam{"&S?", v.name, v.want}
		case 5, 6:
			n := 1 + r.Intn(3)
			var es, ws []string
			for i := 0; i < n; i++ {
				v := pick()
				es, ws = append(es, v.name), append(ws, v.want)
			}
			return refParam{"[&S]", "[" + strings.Join(es, ", ") + "]", "[" + strings.Join(ws, ", ") + "]"}
		case 7:
			v, w := pick(), pick()
			return refParam{"[&S?]", "[" + v.name + ", nil, " + w.name + "]", "[" + v.want + ", nil, " + w.want + "]"}
		case 8:
			v := pick()
			return refParam{"{String: &S}", "{\"k\": " + v.name + "}", "{\"k\": " + v.want + "}"}
		case 9:
			if r.Bool() {
				return refParam{"&[Int]", "ra", arrWant}
			}
			return refParam{"&{String: Int}", "rd", dictWant}
		default:
			if r.Bool() {
				return refParam{"[&[Int]]", "[ra, ra]", "[" + arrWant + ", " + arrWant + "]"}
			}
			return refParam{"&Int", "rn", numWant}
		}
	}
	nEv := 2 + r.Intn(3)
	var events [][]refParam
	for e := 0; e < nEv; e++ {
		last = nil
		np := 2 + r.Intn(3)
		var ps []refParam
		for i := 0; i < np; i++ {
			ps = append(ps, param())
		}
		events = append(events, ps)
		var decl, args []string
		for i, p := range ps {
			decl = append(decl, fmt.Sprintf("p%d: %s", i, p.typ))
			args = append(args, fmt.Sprintf("p%d: %s", i, p.expr))
		}
		fmt.Fprintf(&sb, "access(all) event V%d(%s)\n", e, strings.Join(decl, ", "))
		fmt.Fprintf(&body, "  emit V%d(%s)\n", e, strings.Join(args, ", "))
	}
	sb.WriteString("access(all) fun main() {\n" + body.String() + "}\n")
	return sb.String(), events
}

func refStage(sum *lib.Summary, g *gen, n int) {
	hosts := map[bool]*lib.Host{false: lib.NewHost(), true: lib.NewHost()}
	for k := 0; k < n; k++ {
		src, events := g.refScript()
		for _, vm := range []bool{false, true} {
			engine := map[bool]string{false: "interpreter", true: "vm"}[vm]
			out := hosts[vm].RunScript(src, nil, vm)
			sum.Evaluations++
			replay := map[string]any{"engine": engine, "script": src}
			if out.Class != "" || out.Panic != nil {
				sum.Fail("c48:"+engine+":ref-script-failed", fmt.Sprintf("%s: reference script failed (%s): %v %v", engine, out.Class, out.Err, out.Panic), replay)
				if *dump {
					fmt.Println(src, out.Err)
				}
				continue
			}
			if len(out.Events) != len(events) {
				sum.Fail("c48:"+engine+":event-sequence", fmt.Sprintf("%s: %d events received, %d emitted", engine, len(out.Events), len(events)), replay)
				continue
			}
			for ei, e := range out.Events {
				sum.Count("reference events")
				if !strings.HasSuffix(e.EventType.ID(), fmt.Sprintf(".V%d", ei)) {
					sum.Fail("c48:"+engine+":event-sequence", fmt.Sprintf("%s: event #%d has type %s", engine, ei, e.EventType.ID()), replay)
					continue
				}
				fv := cadence.FieldsMappedByName(e)
				ft := e.EventType.FieldsMappedByName()
				if len(fv) != len(events[ei]) {
					sum.Fail("c48:"+engine+":field-names", fmt.Sprintf("%s: event V%d has %d fields, declared %d", engine, ei, len(fv), len(events[ei])), replay)
					continue
				}
				for i, p := range events[ei] {
					name := fmt.Sprintf("p%d", i)
					v, present := fv[name]
					got, printable := safeString(v)
					what := fmt.Sprintf("%s: event V%d(%s) field %s: %s (emitted %s), received %s, required %s", engine, ei, p.typ, name, p.typ, p.expr, got, p.want)
					replay["event"] = fmt.Sprintf("V%d field %s", ei, name)
					switch {
					case !present || v == nil:
						sum.Fail("c48:"+engine+":ref-field-nil", what+" — the field reached the host as Go nil", replay)
					case !printable:
						sum.Fail("c48:"+engine+":ref-field-nil", what+" — the value contains Go nil", replay)
					case conforms(v, ft[name]) != "":
						sum.Fail("c48:"+engine+":value-nonconforming", what+": "+conforms(v, ft[name]), replay)
					case got != p.want:
						sum.Fail("c48:"+engine+":ref-field-value", what, replay)
					}
				}
			}
		}
	}
}
