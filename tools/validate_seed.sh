#!/bin/bash
# usage: tools/validate_seed.sh <seed-id e.g. c13> <PROP e.g. C13> <pkg dir for demo e.g. interpreter> <demo test regex> "<packages to test>"
# Confirms a seeded change in its scratch worktree /tmp/seed-<id> (patch applied there by the seeding agent):
#  demo fails with the patch and passes without, tests of the given packages pass with the patch,
#  then runs the registered check against that worktree. Writes build/seedval/<id>.log
cd "$(dirname "$0")/.."
id=$1; prop=$2; pkg=$3; rx=$4; pkgs=$5
wt=/tmp/seed-$id; out=/tmp/seed-out/$id; log=build/seedval/$id.log
mkdir -p build/seedval
export GOFLAGS=-mod=mod GOPROXY=off
{
echo "== worktree $wt at $(git -C $wt rev-parse --short HEAD)"; git -C $wt status --short
demo=$(ls $out/demo_test.go 2>/dev/null)
cp $out/demo_test.go $wt/$pkg/zz_seed_demo_test.go
echo "== demo WITH patch (expect FAIL)"; (cd $wt && go test -vet=off -count=1 ./$pkg/ -run "$rx" 2>&1 | tail -15); 
echo "== demo WITHOUT patch (expect ok)"; git -C $wt apply -R $out/patch.diff && (cd $wt && go test -vet=off -count=1 ./$pkg/ -run "$rx" 2>&1 | tail -5); git -C $wt apply $out/patch.diff
rm -f $wt/$pkg/zz_seed_demo_test.go
echo "== existing tests WITH patch: $pkgs"; (cd $wt && go test -vet=off -count=1 $pkgs 2>&1 | grep -v "no test files" | tail -25)
echo "== check $prop against the worktree"; VERIF_REPO=$wt ./check $prop 2>&1 | cut -c1-400 | tail -30
} > $log 2>&1
echo "done $id: $(grep -c '^VIOLATION' $log) violation lines" >> build/seedval/summary.txt
