#!/usr/bin/env python3
"""Regenerate the generated sections of DESIGN.md (between <!-- GEN:name --> ... <!-- /GEN:name --> markers)
from props_meta/, known_findings/, evidence/ and seeded/."""
import glob, json, os, re
V = os.path.dirname(os.path.dirname(os.path.abspath(__file__)))
props = [json.loads(l) for l in open(os.path.join(V, "properties.jsonl"))]
ready = set(json.load(open(os.path.join(V, "props_meta", "_ready.json"))))

def load(p):
    try:
        return json.load(open(p))
    except Exception:
        return None

def esc(s):
    return str(s).replace("|", "\\|").replace("\n", " ")

# ---- as-built table
rows = ["| Prop | Claimed | Theorems (discharged/obligations) | Axioms | Correspondence evaluations (quick) | Known findings | Fixed |",
        "|---|---|---|---|---|---|---|"]
for p in props:
    pid = p["id"]
    ev = load(os.path.join(V, "evidence", pid + ".json")) or {}
    cov = ev.get("coverage", {})
    kf = (load(os.path.join(V, "known_findings", pid + ".json")) or {}).get("findings", [])
    known = sum(1 for k in kf if k.get("status") == "known")
    fixed = sum(1 for k in kf if k.get("status") == "fixed")
    ax = "-"
    for t in cov.get("trusted_base", []):
        if t.startswith("axioms per theorem:"):
            try:
                d = json.loads(t[len("axioms per theorem:"):])
                s = sorted({a for v in d.values() for a in v})
                ax = ", ".join(s) if s else "none"
            except Exception:
                pass
    rows.append("| %s | %s | %s/%s | %s | %s | %d | %d |" % (
        pid, "yes" if pid in ready else "not yet", cov.get("discharged", "-"), cov.get("obligations", "-"), ax,
        cov.get("evaluations", "-"), known, fixed))
asbuilt = "\n".join(rows)

# ---- findings
rows = ["| Prop | Status | Key | What |", "|---|---|---|---|"]
for p in props:
    pid = p["id"]
    kf = (load(os.path.join(V, "known_findings", pid + ".json")) or {}).get("findings", [])
    for k in kf:
        rows.append("| %s | %s%s | `%s` | %s |" % (pid, k.get("status"), (" " + k.get("commit", "")) if k.get("commit") else "",
                                                  esc(k.get("key")), esc(k.get("what", ""))[:420]))
findings = "\n".join(rows)

# ---- seeded
rows = ["| Seeded change | Property | Needs | Caught by | How |", "|---|---|---|---|---|"]
for d in sorted(glob.glob(os.path.join(V, "seeded", "*", "meta.json"))):
    m = load(d) or {}
    rows.append("| %s | %s | %s | %s | %s |" % (os.path.basename(os.path.dirname(d)), m.get("property"), esc(m.get("needs", ""))[:200],
                                               esc(m.get("caught", "")), esc(m.get("how", ""))[:260]))
seeded = "\n".join(rows)

path = os.path.join(V, "DESIGN.md")
s = open(path).read()
for name, body in (("asbuilt", asbuilt), ("findings", findings), ("seeded", seeded)):
    pat = re.compile(r"(<!-- GEN:%s -->).*?(<!-- /GEN:%s -->)" % (name, name), re.S)
    if pat.search(s):
        s = pat.sub(lambda m: m.group(1) + "\n" + body + "\n" + m.group(2), s)
open(path, "w").write(s)
print("design tables regenerated")
