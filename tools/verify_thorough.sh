#!/bin/bash
cd "$(dirname "$0")/.."
mkdir -p build/verify
for p in "$@"; do
  start=$(date +%s)
  ./check $p --tier thorough > build/verify/$p.thorough.log 2>&1
  rc=$?
  end=$(date +%s)
  echo "$p thorough rc=$rc violations=$(grep -c '^VIOLATION' build/verify/$p.thorough.log) known=$(grep -c '^KNOWN-FINDING' build/verify/$p.thorough.log) wall=$((end-start))s" | tee -a build/verify/summary_thorough.txt
done
