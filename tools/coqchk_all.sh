#!/bin/bash
# Independent re-check of every Properties/Cnn.vo (and everything it depends on) with coqchk, on a COPY of the
# compiled files; records the axioms coqchk reports. usage: tools/coqchk_all.sh [Cnn ...]
cd "$(dirname "$0")/.."
rm -rf /var/tmp/cv-coqchk && mkdir -p /var/tmp/cv-coqchk build/coqchk
rsync -a --include='*/' --include='*.vo' --exclude='*' coq/theories/ /var/tmp/cv-coqchk/theories/
props=${@:-$(ls coq/theories/Properties/*.v | xargs -n1 basename | sed 's/\.v$//')}
: > build/coqchk/summary.txt
for p in $props; do
  start=$(date +%s)
  ( cd /var/tmp/cv-coqchk && timeout 2400 nice coqchk -silent -o -Q theories CV CV.Properties.$p ) > build/coqchk/$p.log 2>&1
  rc=$?
  ax=$(awk '/\* Axioms:/{f=1} /\* Constants\/Inductives relying on type-in-type/{f=0} f' build/coqchk/$p.log | tr '\n' ' ' | sed 's/  */ /g')
  echo "$p rc=$rc $(( $(date +%s) - start ))s $ax" | tee -a build/coqchk/summary.txt
done
rm -rf /var/tmp/cv-coqchk
