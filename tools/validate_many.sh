#!/bin/bash
# usage: tools/validate_many.sh "<id> <PROP> <pkg> <regex> <pkgs...>" ...   (each argument one seed; run in parallel)
cd "$(dirname "$0")/.."
for spec in "$@"; do
  set -- $spec
  id=$1; prop=$2; pkg=$3; rx=$4; shift 4
  tools/validate_seed.sh $id $prop $pkg "$rx" "$*" &
done
wait
