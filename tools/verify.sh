#!/bin/bash
# usage: tools/verify.sh "1 2" C05 C20 ...   -- runs ./check for each property and seed, sequentially
cd "$(dirname "$0")/.."
seeds=$1; shift
mkdir -p build/verify
for p in "$@"; do
  for s in $seeds; do
    start=$(date +%s)
    VERIF_SEED=$s ./check $p > build/verify/$p.seed$s.log 2>&1
    rc=$?
    end=$(date +%s)
    v=$(grep -c "^VIOLATION" build/verify/$p.seed$s.log)
    k=$(grep -c "^KNOWN-FINDING" build/verify/$p.seed$s.log)
    echo "$p seed=$s rc=$rc violations=$v known=$k wall=$((end-start))s" | tee -a build/verify/summary.txt
  done
done
