#!/usr/bin/env python3
"""Print the prompt given to a fresh 'seeding' sub-agent for one property (it receives only the property text)."""
import json, sys
pid = sys.argv[1]
suffix = sys.argv[2] if len(sys.argv) > 2 else ''
avoid = sys.argv[3] if len(sys.argv) > 3 else ''
p = {json.loads(l)['id']: json.loads(l) for l in open('/verif/properties.jsonl')}[pid]
low = pid.lower() + suffix
avoid_line = ('\nAn earlier exercise already used this change, so pick a DIFFERENT location and mechanism: ' + avoid + '\n') if avoid else ''
print(f"""You are testing how well a semantic property of the Go project onflow/cadence (a smart-contract language: parser, checker, tree-walking interpreter, bytecode compiler+VM in bbq/, runtime, codecs) is protected. You get only the property text below. Work ONLY in your own scratch git worktree; never touch /repo itself or anything under /verif (do not read /verif).

PROPERTY {pid}: {p['title']}
Statement: {p['statement']}
Quantified over: {p['quantifier']['text']}

Setup: `git -C /repo worktree add /tmp/seed-{low} HEAD` then work in /tmp/seed-{low}. Go env for every shell call: `export GOFLAGS=-mod=mod GOPROXY=off` (do NOT set GOTOOLCHAIN or GOSUMDB). The machine is heavily loaded: compile/test only the packages you need, e.g. `go test -vet=off -count=1 ./interpreter/ -run <regex>`.

Task: produce ONE realistic change to the source of onflow/cadence (non-test Go files) that BREAKS this property while the code still compiles and the existing tests of the packages you touched (and their obvious dependents, e.g. ./interpreter/... ./runtime/... ./bbq/... ./sema/... as relevant) still pass. It should look like a plausible regression or refactoring slip (an off-by-one in a bound, a dropped or weakened check, a wrong branch, a missing invalidation/copy, a cache or fast path that is wrong in a corner), NOT something ordinary use would expose at once: it must need something specific to manifest — an unusual input or boundary value, a particular multi-step sequence of operations, a specific type/width, two sites that each look fine alone, only one of the two engines, only stored-and-reloaded values, etc. Keep the patch small (typically 1-15 changed lines).{avoid_line}

Deliverables, written to /tmp/seed-out/{low}/ (create it):
 1. patch.diff  — `git -C /tmp/seed-{low} diff` of your change (source files only, no test files).
 2. demo_test.go (or demo/main.go) — a demonstration that FAILS with the change and PASSES without it: preferably a Go test file you can drop into an existing package of the worktree (say which package directory and how to run it), using the project's own test helpers; it must show the property violation concretely (observed vs required).
 3. notes.md — which behaviour is broken, exactly what is needed for it to manifest, which existing test packages you ran (commands + result) with the change applied, and how to run the demo.
Verify yourself: demo fails with the patch, passes without it (NEVER use `git stash` - the stash is shared by all worktrees of /repo and other agents work concurrently; instead `git -C /tmp/seed-{low} diff > /tmp/seed-out/{low}/patch.diff; git -C /tmp/seed-{low} apply -R /tmp/seed-out/{low}/patch.diff; <run demo>; git -C /tmp/seed-{low} apply /tmp/seed-out/{low}/patch.diff`); existing tests of the touched packages pass with the patch. When done, leave the worktree in place with the patch applied and report the paths plus a 5-line summary. If an existing test fails because of your change, pick a different change.""")
