#!/usr/bin/env python3
"""usage: keep_seed.py <seed id> <dirname> <PROP> <caught yes|no|after-strengthening> "<needs>" "<how>"
Copies /tmp/seed-out/<id>/{patch.diff,demo*,notes.md} and the validation log to /verif/seeded/<dirname>/ with meta.json."""
import json, os, shutil, sys, glob
sid, name, prop, caught, needs, how = sys.argv[1:7]
src = "/tmp/seed-out/" + sid
dst = "/verif/seeded/" + name
os.makedirs(dst, exist_ok=True)
for f in glob.glob(src + "/*"):
    if os.path.isfile(f) and not os.path.basename(f).startswith("."):
        shutil.copy(f, dst)
log = "/verif/build/seedval/%s.log" % sid
ran = []
if os.path.exists(log):
    shutil.copy(log, os.path.join(dst, "validation.log"))
    ran = [l.strip() for l in open(log, errors="replace") if l.startswith("== ")]
json.dump({"property": prop, "needs": needs, "caught": caught, "how": how,
           "ran": ran + ["VERIF_REPO=/tmp/seed-%s ./check %s (patch applied in a scratch worktree, never in /repo)" % (sid, prop)],
           "origin": "fresh sub-agent given only the property text and a scratch worktree"},
          open(os.path.join(dst, "meta.json"), "w"), indent=1)
print("kept", dst)
