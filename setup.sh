#!/bin/bash
# MANIFEST.setup_cmd: build the whole framework offline from files on disk.
set -u
cd "$(dirname "$0")"
export GOFLAGS=-mod=mod GOPROXY=off
unset GOSUMDB GOTOOLCHAIN
mkdir -p build/bin evidence
python3 - <<'PY'
import sys; sys.path.insert(0,'driver'); import lib; lib.ensure_coq_makefile()
PY
( cd coq && timeout 7000 make -j16 -k 2>&1 | tail -40 )
cp /repo/go.sum harness/go.sum
( cd harness && for d in */; do d=${d%/}; [ "$d" = lib ] && continue; [ -f "$d/main.go" ] || continue; echo "go build $d"; timeout 3000 go build -tags verif -o ../build/bin/$d ./$d || echo "BUILD FAILED: $d"; done )
echo setup done
